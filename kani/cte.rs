
// ---- appended by /verif/tools/kani_unit.py (never committed to /repo) ----
#[cfg(kani)]
mod verif_kani_cte {
    use super::*;
    /// K-CTE (complete: loop-free, full-domain symbolic scalars; no unwinding bound involved).
    /// For every status, version, declared length and threshold, with NO TE header in the request:
    /// chunked <=> version > 1.0 && status >= 200 && status != 204 && (length unknown || length >= threshold)
    #[kani::proof]
    fn cte_no_te_header() {
        let status: u16 = kani::any();
        let major: u8 = kani::any();
        let minor: u8 = kani::any();
        let len_is_some: bool = kani::any();
        let len_v: usize = kani::any();
        let len: Option<usize> = if len_is_some { Some(len_v) } else { None };
        let thr: usize = kani::any();
        let r = choose_transfer_encoding(StatusCode(status), &[], &HTTPVersion(major, minor), &len, false, thr);
        let chunked = matches!(r, TransferEncoding::Chunked);
        let expect = (major, minor) > (1, 0) && status >= 200 && status != 204 && len.map_or(true, |l| l >= thr);
        assert!(chunked == expect);
    }
    /// default threshold: 32768 when the application did not set one, the given value otherwise
    #[kani::proof]
    fn cte_threshold_default() {
        let t_is_some: bool = kani::any();
        let t_v: usize = kani::any();
        let t: Option<usize> = if t_is_some { Some(t_v) } else { None };
        let r = Response { reader: std::io::empty(), status_code: StatusCode(200), headers: Vec::new(), data_length: None, chunked_threshold: t };
        let expect = match t { Some(v) => v, None => 32768 };
        assert!(r.chunked_threshold() == expect);
    }
}
