
// ---- appended by /verif/tools/kani_unit.py (never committed to /repo) ----
#[cfg(kani)]
mod verif_kani_ver {
    use super::*;
    /// K-VER (complete for what it states: five concrete inputs, no symbolic data, no unwinding bound involved).
    /// The POSITIVE half of the version table: each of the five recognised tokens is accepted with its version.
    /// (Verus proves the other half on the same function: whatever is accepted is one of these five, O-VERSION-TABLE.
    /// This Verus draws no negative information from string-literal patterns, so "a known token is never refused"
    /// cannot be stated there.)
    #[kani::proof]
    fn version_table_positive() {
        assert!(matches!(parse_http_version("HTTP/0.9"), Ok(HTTPVersion(0, 9))));
        assert!(matches!(parse_http_version("HTTP/1.0"), Ok(HTTPVersion(1, 0))));
        assert!(matches!(parse_http_version("HTTP/1.1"), Ok(HTTPVersion(1, 1))));
        assert!(matches!(parse_http_version("HTTP/2.0"), Ok(HTTPVersion(2, 0))));
        assert!(matches!(parse_http_version("HTTP/3.0"), Ok(HTTPVersion(3, 0))));
    }
}
