
// ---- appended by /verif/tools/kani_unit.py (never committed to /repo) ----
#[cfg(kani)]
mod verif_kani_hdr5 {
    use super::*;
    use std::str::FromStr;

    fn is_ws(b: u8) -> bool { b == b' ' || b == b'\t' || b == b'\n' || b == b'\r' || b == 0x0b || b == 0x0c }

    /// K-HDR5 (BOUNDED: all ASCII inputs of at most 5 bytes).  Header::from_str against an independent oracle:
    /// Ok <=> there is a colon and no whitespace before the first colon; then name = text before the first colon,
    /// value = text after it with surrounding ASCII whitespace removed.
    #[kani::proof]
    #[kani::unwind(8)]
    fn hdr_from_str_le5() {
        let len: usize = kani::any();
        kani::assume(len <= 5);
        let bytes: [u8; 5] = kani::any();
        let mut k = 0;
        while k < 5 { kani::assume(bytes[k] < 128); k += 1; }
        let s = std::str::from_utf8(&bytes[..len]).unwrap();
        let r = Header::from_str(s);
        // oracle
        let mut colon: Option<usize> = None;
        let mut i = 0;
        while i < len { if colon.is_none() && bytes[i] == b':' { colon = Some(i); } i += 1; }
        let mut ws_in_name = false;
        if let Some(c) = colon { let mut j = 0; while j < c { if is_ws(bytes[j]) { ws_in_name = true; } j += 1; } }
        let expect_ok = colon.is_some() && !ws_in_name;
        assert!(r.is_ok() == expect_ok);
        if let (Ok(h), Some(c)) = (r, colon) {
            let name = h.field.as_str().as_str().as_bytes();
            assert!(name.len() == c);
            let mut j = 0;
            while j < c { assert!(name[j] == bytes[j]); j += 1; }
            let mut a = c + 1;
            let mut b = len;
            while a < b && is_ws(bytes[a]) { a += 1; }
            while b > a && is_ws(bytes[b - 1]) { b -= 1; }
            let val = h.value.as_str().as_bytes();
            assert!(val.len() == b - a);
            let mut j = 0;
            while j < b - a { assert!(val[j] == bytes[a + j]); j += 1; }
        }
    }
}
