
// ---- appended by /verif/tools/kani_unit.py (never committed to /repo) ----
#[cfg(kani)]
mod verif_kani_cmp {
    use super::*;
    use std::cmp::Ordering;
    /// K-CMP (complete: loop-free, full-domain symbolic scalars).  An independent second proof of O-VERSION-ORDER (U-CMP proves
    /// the same on the real bodies with Verus): for ALL (major, minor) pairs, `cmp`, `partial_cmp`, the comparison with a
    /// `(u8, u8)` tuple and `==` agree with the lexicographic order on (major, minor).
    #[kani::proof]
    fn version_order_is_lexicographic() {
        let (a0, a1, b0, b1): (u8, u8, u8, u8) = (kani::any(), kani::any(), kani::any(), kani::any());
        let a = HTTPVersion(a0, a1);
        let b = HTTPVersion(b0, b1);
        let lex = if a0 != b0 { a0.cmp(&b0) } else { a1.cmp(&b1) };
        assert!(a.cmp(&b) == lex);
        assert!(a.partial_cmp(&b) == Some(lex));
        assert!(a.partial_cmp(&(b0, b1)) == Some(lex));
        assert!((a == b) == (lex == Ordering::Equal));
        assert!((a == (b0, b1)) == (lex == Ordering::Equal));
        assert!((a <= (b0, b1)) == (lex != Ordering::Greater));
        assert!((a > (b0, b1)) == (lex == Ordering::Greater));
    }
}
