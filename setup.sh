#!/bin/sh
# offline set-up: nothing to download; build the replay crate against /repo and warm Verus once
set -e
cd "$(dirname "$0")"
mkdir -p .work evidence replay/out
export CARGO_NET_OFFLINE=true
(cd replay && CARGO_TARGET_DIR=/verif/.work/replay-target cargo build --offline --release >/dev/null 2>&1) || echo "replay crate did not build (replays unavailable)"
verus --version >/dev/null
echo setup done
