// ---- prelude/deps_ascii.rs : opaque stand-ins + ASSUMED contracts for the `ascii` crate (dependency; R15) ----
// An AsciiString is viewed as the sequence of its characters (all < 128 by the crate's invariant).
#[verifier::external_body]
pub struct AsciiString { v: Vec<u8> }
impl View for AsciiString { type V = Seq<char>; uninterp spec fn view(&self) -> Seq<char>; }
impl Clone for AsciiString {
    #[verifier::external_body]
    fn clone(&self) -> (r: AsciiString) ensures r == *self { unimplemented!() }
}
impl AsciiString {
    #[verifier::external_body]
    pub fn as_str(&self) -> (r: &str) ensures r@ == self@ { unimplemented!() }
}
