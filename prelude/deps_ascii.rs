// ---- prelude/deps_ascii.rs : opaque stand-ins + ASSUMED contracts for the `ascii` crate (dependency; R15) ----
// An AsciiString is viewed as the sequence of its characters (all < 128 by the crate's invariant).
#[verifier::external_body]
pub struct AsciiString { v: Vec<u8> }
impl View for AsciiString { type V = Seq<char>; uninterp spec fn view(&self) -> Seq<char>; }
impl Clone for AsciiString {
    #[verifier::external_body]
    fn clone(&self) -> (r: AsciiString) ensures r == *self { unimplemented!() }
}
impl AsciiString {
    #[verifier::external_body]
    pub fn as_str(&self) -> (r: &str) ensures r@ == self@ { unimplemented!() }
}

#[verifier::external_body]
#[verifier::reject_recursive_types(B)]
pub struct FromAsciiError<B> { b: B }
pub open spec fn ascii_to_bytes(s: Seq<char>) -> Seq<u8> { s.map_values(|c: char| c as u8) }
pub open spec fn all_ascii(s: Seq<u8>) -> bool { forall|i: int| 0 <= i < s.len() ==> #[trigger] s[i] < 128 }
/// the bytes a `B: Into<Vec<u8>> + AsRef<[u8]>` stands for, and the same as characters
pub uninterp spec fn bytes_of<B>(b: B) -> Seq<u8>;
pub uninterp spec fn chars_of<B>(b: B) -> Seq<char>;
pub broadcast axiom fn axiom_chars_of_str(s: &str)
    ensures #[trigger] chars_of::<&str>(s) == s@;
pub broadcast axiom fn axiom_bytes_of_vec(v: Vec<u8>)
    ensures #[trigger] bytes_of::<Vec<u8>>(v) == v@;
impl AsciiString {
    // ASSUMED (dependency `ascii`): from_ascii succeeds exactly on all-ASCII input and keeps the bytes
    #[verifier::external_body]
    pub fn from_ascii<B>(bytes: B) -> (r: Result<AsciiString, FromAsciiError<B>>)
        ensures match r {
            Ok(a) => all_ascii(bytes_of(bytes)) && ascii_to_bytes(a@) == bytes_of(bytes) && a@ == chars_of(bytes),
            Err(_) => !all_ascii(bytes_of(bytes)),
        }
    { unimplemented!() }
}
