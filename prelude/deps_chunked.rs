// ---- prelude/deps_chunked.rs : opaque stand-in + ASSUMED contract for chunked_transfer::Decoder (dependency; R15) ----
// dechunk(s): the concatenated chunk payloads of the chunked body that starts at s;
// chunked_len(s): the number of bytes of s that this chunked body occupies (through the final CRLF).
pub uninterp spec fn dechunk(s: Seq<u8>) -> Seq<u8>;
pub uninterp spec fn chunked_len(s: Seq<u8>) -> nat;
#[verifier::external_body]
#[verifier::reject_recursive_types(R)]
pub struct Decoder<R> { source: R, remaining_chunks_size: Option<usize> }
pub uninterp spec fn dec_stream<R>(d: &Decoder<R>) -> Seq<u8>;
pub uninterp spec fn dec_failed<R>(d: &Decoder<R>) -> bool;
pub uninterp spec fn dec_source<R>(d: &Decoder<R>) -> &R;
pub uninterp spec fn dec_end<R>(d: &Decoder<R>) -> Seq<u8>;
impl<R: Read> Decoder<R> {
    // ASSUMED (dependency): a fresh decoder yields exactly the chunk payloads of its source
    #[verifier::external_body]
    pub fn new(source: R) -> (r: Decoder<R>)
        ensures *dec_source(&r) == source, dec_stream(&r) == dechunk(source.stream()),
            // ASSUMED (dependency): read to end-of-stream, the decoder leaves its source right after the chunked body
            dec_end(&r) == source.stream().skip(chunked_len(source.stream()) as int)
    { unimplemented!() }
}
impl<R: Read> ReadSpecImpl for Decoder<R> {
    open spec fn stream(&self) -> Seq<u8> { dec_stream(self) }
    open spec fn failed(&self) -> bool { dec_failed(self) }
    // the decoder has no Drop: dropped as it is, its source is handed on wherever decoding stopped
    open spec fn release(&self) -> Seq<u8> { dec_source(self).stream() }
    open spec fn drained(&self) -> Seq<u8> { dec_end(self) }
    open spec fn owns_source(&self) -> bool { true }
}
#[verifier::external]
impl<R: Read> Read for Decoder<R> { fn read(&mut self, buf: &mut [u8]) -> std::io::Result<usize> { unimplemented!() } }
