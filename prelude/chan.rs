// ---- prelude/chan.rs : ASSUMED contracts for std::sync::mpsc (trusted base, DESIGN 3.2, A-CHAN) ----
#[verifier::external_type_specification]
#[verifier::external_body]
#[verifier::reject_recursive_types(T)]
pub struct ExSender<T>(std::sync::mpsc::Sender<T>);

#[verifier::external_type_specification]
#[verifier::external_body]
#[verifier::reject_recursive_types(T)]
pub struct ExReceiver<T>(std::sync::mpsc::Receiver<T>);

#[verifier::external_type_specification]
#[verifier::external_body]
#[verifier::reject_recursive_types(T)]
pub struct ExSendError<T>(std::sync::mpsc::SendError<T>);

#[verifier::external_type_specification]
#[verifier::external_body]
pub struct ExRecvError(std::sync::mpsc::RecvError);

pub uninterp spec fn tx_chan<T>(s: &std::sync::mpsc::Sender<T>) -> int;
pub uninterp spec fn rx_chan<T>(r: &std::sync::mpsc::Receiver<T>) -> int;
