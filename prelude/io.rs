//@include prelude/io_error.rs
// ---- prelude/io.rs : stream model of std::io::Read (trusted base, DESIGN 3.1) ----
// Stream model of a byte source (DESIGN 3.1).  `stream()` = the bytes this source will still
// deliver (prophetic, fixed by the peer, independent of segmentation); `failed()` = sticky flag
// set by an Err.  `read` may return ANY admissible n: every consequence holds for all short-read
// patterns.
#[verifier::external_trait_specification]
#[verifier::external_trait_extension(ReadSpec via ReadSpecImpl)]
pub trait ExRead {
    type ExternalTraitSpecificationFor: std::io::Read;

    spec fn stream(&self) -> Seq<u8>;
    spec fn failed(&self) -> bool;
    /// C09: for a reader that owns the connection's byte source: the position (remaining byte stream of the
    /// source) at which the source is handed on if this reader is dropped NOW, as it is.  Defined per type from
    /// what its Drop (if any) does -- a type without Drop releases its fields as they are.
    spec fn release(&self) -> Seq<u8>;
    /// ... and if it is first read to end-of-stream and then dropped.
    spec fn drained(&self) -> Seq<u8>;
    /// C11: does this reader keep the connection's byte source (so that the next request cannot be read yet)?
    spec fn owns_source(&self) -> bool;

    fn read(&mut self, buf: &mut [u8]) -> (r: std::io::Result<usize>)
        ensures
            final(buf)@.len() == old(buf)@.len(),
            match r {
                Ok(n) => n <= old(buf)@.len()
                    && n <= old(self).stream().len()
                    && final(buf)@.subrange(0, n as int) == old(self).stream().subrange(0, n as int)
                    && final(self).stream() == old(self).stream().skip(n as int)
                    && (n == 0 && old(buf)@.len() > 0 ==> old(self).stream().len() == 0)
                    && (old(self).failed() ==> final(self).failed()),   // sticky
                Err(_) => final(self).failed(),
            };

    fn by_ref(&mut self) -> (r: &mut Self) where Self: Sized
        ensures *r == *old(self), *final(r) == *final(self);

    // read_to_end: everything the source will still deliver is appended to buf (std documentation)
    fn read_to_end(&mut self, buf: &mut Vec<u8>) -> (r: std::io::Result<usize>)
        ensures
            match r {
                Ok(n) => final(buf)@ == old(buf)@ + old(self).stream() && n == old(self).stream().len()
                    && final(self).stream().len() == 0 && (old(self).failed() ==> final(self).failed()),
                Err(_) => final(self).failed(),
            };

    fn bytes(self) -> (r: std::io::Bytes<Self>) where Self: Sized
        ensures bytes_inner(r) == self;
}

#[verifier::external_type_specification]
#[verifier::external_body]
#[verifier::reject_recursive_types(R)]
pub struct ExBytes<R>(std::io::Bytes<R>);
pub uninterp spec fn bytes_inner<R>(b: std::io::Bytes<R>) -> R;
pub uninterp spec fn same_handle<R>(a: R, b: R) -> bool;

impl<'a, R: std::io::Read> ReadSpecImpl for &'a mut R {
    open spec fn stream(&self) -> Seq<u8> { (**self).stream() }
    open spec fn failed(&self) -> bool { (**self).failed() }
    open spec fn release(&self) -> Seq<u8> { (**self).release() }
    open spec fn drained(&self) -> Seq<u8> { (**self).drained() }
    open spec fn owns_source(&self) -> bool { (**self).owns_source() }
}

// io::Bytes::next reads exactly one byte from its source (ASSUMED, std)
pub assume_specification<R: std::io::Read>[ <std::io::Bytes<R> as Iterator>::next ](b: &mut std::io::Bytes<R>) -> (r: Option<std::io::Result<u8>>)
    ensures
        match r {
            Some(Ok(x)) => bytes_inner(*old(b)).stream().len() > 0 && x == bytes_inner(*old(b)).stream()[0]
                && bytes_inner(*final(b)).stream() == bytes_inner(*old(b)).stream().skip(1)
                && same_handle(bytes_inner(*old(b)), bytes_inner(*final(b))),
            Some(Err(_)) => same_handle(bytes_inner(*old(b)), bytes_inner(*final(b))) && bytes_inner(*final(b)).failed(),
            None => bytes_inner(*old(b)).stream().len() == 0 && bytes_inner(*final(b)).stream().len() == 0
                && same_handle(bytes_inner(*old(b)), bytes_inner(*final(b))),
        };

// &mut prophecy plumbing through the opaque Bytes<&mut X> (two axioms, DESIGN 1)
pub broadcast axiom fn axiom_bytes_resolved<'a, X: std::io::Read>(b: std::io::Bytes<&'a mut X>)
    ensures #[trigger] has_resolved(b) ==> has_resolved(bytes_inner(b));
pub broadcast axiom fn axiom_same_handle_mut<'a, X: std::io::Read>(a: &'a mut X, b: &'a mut X)
    ensures #[trigger] same_handle(a, b) ==> *final(a) == *final(b);
