//@include prelude/io_error.rs
// ---- prelude/io.rs : stream model of std::io::Read (trusted base, DESIGN 3.1) ----
// Stream model of a byte source (DESIGN 3.1).  `stream()` = the bytes this source will still
// deliver (prophetic, fixed by the peer, independent of segmentation); `failed()` = sticky flag
// set by an Err.  `read` may return ANY admissible n: every consequence holds for all short-read
// patterns.
#[verifier::external_trait_specification]
#[verifier::external_trait_extension(ReadSpec via ReadSpecImpl)]
pub trait ExRead {
    type ExternalTraitSpecificationFor: std::io::Read;

    spec fn stream(&self) -> Seq<u8>;
    spec fn failed(&self) -> bool;

    fn read(&mut self, buf: &mut [u8]) -> (r: std::io::Result<usize>)
        ensures
            final(buf)@.len() == old(buf)@.len(),
            match r {
                Ok(n) => n <= old(buf)@.len()
                    && n <= old(self).stream().len()
                    && final(buf)@.subrange(0, n as int) == old(self).stream().subrange(0, n as int)
                    && final(self).stream() == old(self).stream().skip(n as int)
                    && (n == 0 && old(buf)@.len() > 0 ==> old(self).stream().len() == 0)
                    && (old(self).failed() ==> final(self).failed()),   // sticky
                Err(_) => final(self).failed(),
            };
}
