// ---- prelude/vecdeque.rs : ASSUMED contracts for the VecDeque functions vstd does not specify ----
pub assume_specification<T, A: std::alloc::Allocator>[ std::collections::VecDeque::<T, A>::is_empty ](q: &std::collections::VecDeque<T, A>) -> (r: bool)
    ensures r == (q@.len() == 0);
pub assume_specification<T, A: std::alloc::Allocator>[ std::collections::VecDeque::<T, A>::front ](q: &std::collections::VecDeque<T, A>) -> (r: Option<&T>)
    ensures match r { Some(x) => q@.len() > 0 && *x == q@[0], None => q@.len() == 0 };
pub assume_specification<T, A: std::alloc::Allocator>[ std::collections::VecDeque::<T, A>::back ](q: &std::collections::VecDeque<T, A>) -> (r: Option<&T>)
    ensures match r { Some(x) => q@.len() > 0 && *x == q@[q@.len() - 1], None => q@.len() == 0 };
