// ---- prelude/trim.rs : ASSUMED contracts of str::trim / trim_end / trim_start (std documentation) ----
pub open spec fn ws_char(c: char) -> bool { vstd::std_specs::char::is_white_space(c) }
/// t is s with ALL leading and trailing whitespace removed (and nothing else)
pub open spec fn is_trimmed_of(t: Seq<char>, s: Seq<char>) -> bool {
    exists|a: int, b: int| 0 <= a <= b <= s.len() && t == s.subrange(a, b)
        && (forall|i: int| 0 <= i < a ==> ws_char(#[trigger] s[i])) && (forall|i: int| b <= i < s.len() ==> ws_char(#[trigger] s[i]))
        && (a == b || (!ws_char(s[a]) && !ws_char(s[b - 1])))
}
pub assume_specification[ str::trim ](s: &str) -> (r: &str)
    ensures is_trimmed_of(r@, s@);
/// t is s with ALL trailing whitespace removed (and nothing else)
pub open spec fn is_trim_end_of(t: Seq<char>, s: Seq<char>) -> bool {
    t.len() <= s.len() && t == s.take(t.len() as int) && (forall|i: int| t.len() <= i < s.len() ==> ws_char(#[trigger] s[i]))
        && (t.len() == 0 || !ws_char(t[t.len() - 1]))
}
pub assume_specification[ str::trim_end ](s: &str) -> (r: &str)
    ensures is_trim_end_of(r@, s@);
/// PROVED: trimming keeps ASCII text ASCII (the result is a sub-sequence)
pub broadcast proof fn lemma_trim_ascii(t: Seq<char>, s: Seq<char>)
    requires #[trigger] is_trimmed_of(t, s), str_is_ascii(s)
    ensures str_is_ascii(t)
{
    let (a, b) = choose|a: int, b: int| 0 <= a <= b <= s.len() && t == s.subrange(a, b);
    assert(forall|i: int| 0 <= i < t.len() ==> #[trigger] t[i] == s[a + i]);
}
/// t is s with ALL leading whitespace removed (and nothing else)
pub open spec fn is_trim_start_of(t: Seq<char>, s: Seq<char>) -> bool {
    t.len() <= s.len() && t == s.skip(s.len() - t.len()) && (forall|i: int| 0 <= i < s.len() - t.len() ==> ws_char(#[trigger] s[i]))
        && (t.len() == 0 || !ws_char(t[0]))
}
pub assume_specification[ str::trim_start ](s: &str) -> (r: &str)
    ensures is_trim_start_of(r@, s@);
/// PROVED: what trim_start returns is determined by its argument (two calls on the same text give the same text)
pub broadcast proof fn lemma_trim_start_unique(t1: Seq<char>, t2: Seq<char>, s: Seq<char>)
    requires #[trigger] is_trim_start_of(t1, s), #[trigger] is_trim_start_of(t2, s)
    ensures t1 == t2
{
    if t1.len() < t2.len() {
        // the first character of t2 lies in the prefix that t1's side calls whitespace
        assert(t2[0] == s[s.len() - t2.len()]);
        assert(ws_char(s[s.len() - t2.len()]));
    } else if t2.len() < t1.len() {
        assert(t1[0] == s[s.len() - t1.len()]);
        assert(ws_char(s[s.len() - t1.len()]));
    }
}
