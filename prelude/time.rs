// ---- time (C17 / C07 timing).  ASSUMED from the std documentation, listed in the evidence:
//  nanos(d)   length of a Duration in nanoseconds
//  Clock      a ghost monotonic clock threaded (rewrite R18) through the three std calls that read or advance it:
//             Instant::now(), Instant::elapsed(), Condvar::wait_timeout().  at(i) = the clock value an Instant denotes.
//  waited(w)  how long the wait that produced this WaitTimeoutResult really lasted; wait_budget(w) = the timeout it was given
pub uninterp spec fn nanos(d: Duration) -> nat;
pub uninterp spec fn at(i: Instant) -> nat;
pub uninterp spec fn waited(w: &std::sync::WaitTimeoutResult) -> nat;
pub uninterp spec fn wait_budget(w: &std::sync::WaitTimeoutResult) -> nat;

#[verifier::external_type_specification]
#[verifier::external_body]
pub struct ExWaitTimeoutResult(std::sync::WaitTimeoutResult);
#[verifier::external_type_specification]
#[verifier::external_body]
pub struct ExInstant(std::time::Instant);

// Duration is ordered by its length and subtraction panics on underflow (`a - b` requires a >= b)
pub broadcast axiom fn axiom_duration_ord(a: Duration, b: Duration)
    ensures #![trigger a.partial_cmp_spec(&b)]
        <Duration as vstd::std_specs::cmp::PartialOrdSpec>::obeys_partial_cmp_spec(),
        a.partial_cmp_spec(&b) == Some(if nanos(a) < nanos(b) { core::cmp::Ordering::Less } else if nanos(a) == nanos(b) { core::cmp::Ordering::Equal } else { core::cmp::Ordering::Greater });
pub broadcast axiom fn axiom_duration_sub(a: Duration, b: Duration)
    ensures #![trigger a.sub_spec(b)] #![trigger a.sub_req(b)]
        <Duration as vstd::std_specs::ops::SubSpec>::obeys_sub_spec(),
        a.sub_req(b) == (nanos(a) >= nanos(b)),
        nanos(a.sub_spec(b)) == nanos(a) - nanos(b);
pub assume_specification[ Duration::checked_sub ](a: Duration, b: Duration) -> (r: Option<Duration>)
    ensures nanos(a) >= nanos(b) ==> r is Some && nanos(r->Some_0) == nanos(a) - nanos(b),
            nanos(a) < nanos(b) ==> r is None;
pub assume_specification[ Duration::saturating_sub ](a: Duration, b: Duration) -> (r: Duration)
    ensures nanos(r) == (if nanos(a) >= nanos(b) { nanos(a) - nanos(b) } else { 0 }) as nat;
pub assume_specification[ <Duration as Default>::default ]() -> (r: Duration)
    ensures nanos(r) == 0;
pub assume_specification[ Duration::from_millis ](ms: u64) -> (r: Duration)
    ensures nanos(r) == ms * 1_000_000;
pub assume_specification[ Duration::from_secs ](s: u64) -> (r: Duration)
    ensures nanos(r) == s * 1_000_000_000;
pub assume_specification[ Duration::as_secs ](d: &Duration) -> (r: u64)
    ensures r == nanos(*d) / 1_000_000_000;
pub assume_specification[ Duration::subsec_nanos ](d: &Duration) -> (r: u32)
    ensures r == nanos(*d) % 1_000_000_000;
pub assume_specification[ Duration::as_millis ](d: &Duration) -> (r: u128)
    ensures r == nanos(*d) / 1_000_000;
pub assume_specification[ Duration::is_zero ](d: &Duration) -> (r: bool)
    ensures r == (nanos(*d) == 0);
pub assume_specification[ std::sync::WaitTimeoutResult::timed_out ](w: &std::sync::WaitTimeoutResult) -> (r: bool)
    ensures r ==> waited(w) >= wait_budget(w);       // "true if the wait was known to have timed out": the full budget has elapsed

pub struct Clock { pub ghost t: nat }
#[verifier::external_body]
pub proof fn verif_clock_start() -> (tracked c: Clock) { unimplemented!() }

// R18 wrappers (same std call inside; the ghost clock parameter is erased)
#[verifier::external_body]
pub fn verif_now(Tracked(c): Tracked<&mut Clock>) -> (r: Instant)
    ensures final(c).t >= old(c).t, at(r) == final(c).t
{ Instant::now() }
#[verifier::external_body]
pub fn verif_elapsed(i: &Instant, Tracked(c): Tracked<&mut Clock>) -> (r: Duration)
    ensures final(c).t >= old(c).t,
            nanos(r) == (if final(c).t >= at(*i) { final(c).t - at(*i) } else { 0 }) as nat   // "saturates to zero" for an instant of the future
{ i.elapsed() }
#[verifier::external_body]
pub fn verif_wait_timeout<'a, T>(cv: &Condvar, g: MutexGuard<'a, T>, d: Duration, Tracked(c): Tracked<&mut Clock>)
    -> (r: std::sync::LockResult<(std::sync::MutexGuard<'a, T>, std::sync::WaitTimeoutResult)>)
    requires may_block(),
    ensures r is Ok, guard_of(&(r->Ok_0).0) == guard_of(&g),      // the protected value after the wait is arbitrary: other threads ran
            acq(&(r->Ok_0).0) == gval(&(r->Ok_0).0),
            wait_budget(&(r->Ok_0).1) == nanos(d),
            final(c).t >= old(c).t + waited(&(r->Ok_0).1),
{ cv.wait_timeout(g, d) }
