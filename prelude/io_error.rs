// ---- prelude/io_error.rs : ASSUMED contracts for std::io (trusted base, DESIGN 2.3 / 3.1) ----
#[verifier::external_type_specification]
#[verifier::external_body]
pub struct ExIoError(std::io::Error);

#[verifier::external_type_specification]
pub struct ExErrorKind(std::io::ErrorKind);

pub uninterp spec fn io_error_kind(e: &std::io::Error) -> std::io::ErrorKind;
pub assume_specification[ std::io::Error::kind ](e: &std::io::Error) -> (k: std::io::ErrorKind)
    ensures k == io_error_kind(e);

// ErrorKind is a field-less enum with a derived PartialEq: `==` is equality of the variants
pub assume_specification[ <std::io::ErrorKind as core::cmp::PartialEq>::eq ](a: &std::io::ErrorKind, b: &std::io::ErrorKind) -> (r: bool)
    ensures r == (*a == *b);
