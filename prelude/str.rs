// ---- prelude/str.rs : ASSUMED contracts for the str functions the crate uses (written from the std documentation) ----
pub open spec fn lower_char(c: char) -> char {
    if 'A' <= c && c <= 'Z' { ((c as u8) + 32) as char } else { c }
}
pub open spec fn lower(a: Seq<char>) -> Seq<char> { a.map_values(|c: char| lower_char(c)) }
/// ASCII case-insensitive equality
pub open spec fn eq_ic(a: Seq<char>, b: Seq<char>) -> bool { lower(a) == lower(b) }
/// substring test (opaque: the units only need it as a name for what str::contains computes; keeping its quantifier
/// out of the solver's way makes a wrong predicate fail fast instead of exhausting the resource limit)
#[verifier::opaque]
pub open spec fn seq_contains(a: Seq<char>, b: Seq<char>) -> bool {
    exists|i: int| 0 <= i && i + b.len() <= a.len() && #[trigger] a.subrange(i, i + b.len()) == b
}
pub open spec fn is_digit(c: char) -> bool { '0' <= c && c <= '9' }
pub open spec fn all_digits(s: Seq<char>) -> bool { forall|i: int| 0 <= i < s.len() ==> is_digit(#[trigger] s[i]) }
pub open spec fn dec_value(s: Seq<char>) -> nat
    decreases s.len()
{
    if s.len() == 0 { 0 } else { dec_value(s.drop_last()) * 10 + ((s.last() as u8) - ('0' as u8)) as nat }
}
/// <usize as FromStr>::from_str as documented: an optional `+` sign, then one or more decimal
/// digits, the value must fit; anything else (empty, `-`, spaces, other characters) is an error.
pub open spec fn parse_usize(s: Seq<char>) -> Option<usize> {
    let d = if s.len() > 0 && s[0] == '+' { s.skip(1) } else { s };
    if d.len() > 0 && all_digits(d) && dec_value(d) <= usize::MAX { Some(dec_value(d) as usize) } else { None }
}
/// what the property calls "a plain decimal number the server can represent"
pub open spec fn plain_decimal(s: Seq<char>) -> Option<usize> {
    if s.len() > 0 && all_digits(s) && dec_value(s) <= usize::MAX { Some(dec_value(s) as usize) } else { None }
}

pub assume_specification[ str::eq_ignore_ascii_case ](a: &str, b: &str) -> (r: bool)
    ensures r == eq_ic(a@, b@);
pub assume_specification[ str::to_ascii_lowercase ](a: &str) -> (r: String)
    ensures r@ == lower(a@);
pub open spec fn upper_char(c: char) -> char {
    if 'a' <= c && c <= 'z' { ((c as u8 - 32) as char) } else { c }
}
pub open spec fn upper(a: Seq<char>) -> Seq<char> { a.map_values(|c: char| upper_char(c)) }
pub assume_specification[ str::to_ascii_uppercase ](a: &str) -> (r: String)
    ensures r@ == upper(a@);

#[verifier::external_type_specification]
#[verifier::external_body]
pub struct ExParseIntError(core::num::ParseIntError);
pub assume_specification[ <usize as core::str::FromStr>::from_str ](s: &str) -> (r: Result<usize, core::num::ParseIntError>)
    ensures (r is Ok) == (parse_usize(s@) is Some), r is Ok ==> r->Ok_0 == parse_usize(s@)->Some_0;

// str::contains is generic over Pattern; its meaning for a &str pattern is substring search
pub uninterp spec fn contains_post<P>(s: Seq<char>, p: P, r: bool) -> bool;
pub assume_specification<P: core::str::pattern::Pattern>[ str::contains::<P> ](s: &str, p: P) -> (r: bool)
    ensures contains_post(s@, p, r);
#[verifier::external_body]
pub broadcast proof fn axiom_contains_str(s: Seq<char>, p: &str, r: bool)
    requires #[trigger] contains_post::<&str>(s, p, r)
    ensures r == seq_contains(s, p@)
{}

pub uninterp spec fn starts_with_post<P>(s: Seq<char>, p: P, r: bool) -> bool;
pub assume_specification<P: core::str::pattern::Pattern>[ str::starts_with::<P> ](s: &str, p: P) -> (r: bool)
    ensures starts_with_post(s@, p, r);
#[verifier::external_body]
pub broadcast proof fn axiom_starts_with_char(s: Seq<char>, p: char, r: bool)
    requires #[trigger] starts_with_post::<char>(s, p, r)
    ensures r == (s.len() > 0 && s[0] == p)
{}

#[verifier::external_body]
pub broadcast proof fn axiom_starts_with_str(s: Seq<char>, p: &str, r: bool)
    requires #[trigger] starts_with_post::<&str>(s, p, r)
    ensures r == (s.len() >= p@.len() && s.take(p@.len() as int) == p@)
{}
// R34: `s[n..]` (str slicing, std: panics unless n is a char boundary inside the string).  Stated for the case the crate
// uses: the first n characters are ASCII, so byte offset n is character offset n
#[verifier::external_body]
pub fn verif_str_from<'a>(s: &'a str, n: usize) -> (r: &'a str)
    requires n <= s@.len(), forall|i: int| 0 <= i < n ==> (#[trigger] s@[i] as u32) < 128,
    ensures r@ == s@.skip(n as int)
{ &s[n..] }
