// (moved into prelude/io.rs)
