// ---- prelude/iter.rs : ASSUMED contracts for slice iterators (std) ----
use vstd::std_specs::iter::IteratorSpec;
// `find` is specified through an uninterpreted predicate + broadcast axiom (a direct spec over
// call_ensures of the closure creates a definitional cycle in this Verus).
pub uninterp spec fn find_post<'a, T, P>(it: core::slice::Iter<'a, T>, p: P, r: Option<&'a T>) -> bool;

pub assume_specification<'a, T, P: FnMut(&<core::slice::Iter<'a, T> as Iterator>::Item) -> bool>[ <core::slice::Iter<'a, T> as Iterator>::find::<P> ](it: &mut core::slice::Iter<'a, T>, p: P) -> (r: Option<<core::slice::Iter<'a, T> as Iterator>::Item>)
    where core::slice::Iter<'a, T>: Sized
    ensures
        find_post(*old(it), p, r),
;

#[verifier::external_body]
pub broadcast proof fn axiom_find_post<'a, T, P: FnMut(&&'a T) -> bool>(it: core::slice::Iter<'a, T>, p: P, r: Option<&'a T>)
    requires #[trigger] find_post(it, p, r)
    ensures
        match r {
            Some(x) => exists|i: int| 0 <= i < it.remaining().len() && x == #[trigger] it.remaining()[i] && call_ensures(p, (&x,), true)
                && forall|j: int| 0 <= j < i ==> call_ensures(p, (&#[trigger] it.remaining()[j],), false),
            None => forall|j: int| 0 <= j < it.remaining().len() ==> call_ensures(p, (&#[trigger] it.remaining()[j],), false),
        }
{}

// PROVED bridging lemma (not an assumption): vstd specifies `slice.iter().remaining() == slice@.as_ref()`;
// facts about `remaining()[j]` become usable from a goal that mentions `slice@[j]`.
pub broadcast proof fn lemma_as_ref_index<T>(s: Seq<T>, j: int)
    requires 0 <= j < s.len()
    ensures #![trigger s.as_ref(), s[j]] s.as_ref().len() == s.len() && *s.as_ref()[j] == s[j]
{}
pub broadcast proof fn lemma_as_ref_index_fwd<T>(s: Seq<T>, j: int)
    requires 0 <= j < s.len()
    ensures *(#[trigger] s.as_ref()[j]) == s[j]
{}

// `any`: true iff the predicate holds for some remaining element (std documentation)
pub uninterp spec fn any_post<'a, T, P>(it: core::slice::Iter<'a, T>, p: P, r: bool) -> bool;
pub assume_specification<'a, T, P: FnMut(<core::slice::Iter<'a, T> as Iterator>::Item) -> bool>[ <core::slice::Iter<'a, T> as Iterator>::any::<P> ](it: &mut core::slice::Iter<'a, T>, p: P) -> (r: bool)
    where core::slice::Iter<'a, T>: Sized
    ensures any_post(*old(it), p, r);
#[verifier::external_body]
pub broadcast proof fn axiom_any_post<'a, T, P: FnMut(&'a T) -> bool>(it: core::slice::Iter<'a, T>, p: P, r: bool)
    requires #[trigger] any_post(it, p, r)
    ensures
        r ==> exists|i: int| 0 <= i < it.remaining().len() && call_ensures(p, (#[trigger] it.remaining()[i],), true),
        !r ==> forall|j: int| 0 <= j < it.remaining().len() ==> call_ensures(p, (#[trigger] it.remaining()[j],), false),
{}

// slice::IterMut::find (ASSUMED, std): returns the first element satisfying the predicate; the elements that were not
// handed out are dropped unmodified.  (vstd's iter_mut ties `*final(remaining()[i])` to the final slice, so an
// assignment through the returned reference can be followed.)
pub uninterp spec fn find_mut_post<'a, T, P>(it: core::slice::IterMut<'a, T>, p: P, r: Option<&'a mut T>) -> bool;
pub assume_specification<'a, T, P: FnMut(&<core::slice::IterMut<'a, T> as Iterator>::Item) -> bool>[ <core::slice::IterMut<'a, T> as Iterator>::find::<P> ](it: &mut core::slice::IterMut<'a, T>, p: P) -> (r: Option<<core::slice::IterMut<'a, T> as Iterator>::Item>)
    where core::slice::IterMut<'a, T>: Sized
    ensures find_mut_post(*old(it), p, r);
#[verifier::external_body]
pub broadcast proof fn axiom_find_mut_post<'a, T, P: FnMut(&&'a mut T) -> bool>(it: core::slice::IterMut<'a, T>, p: P, r: Option<&'a mut T>)
    requires #[trigger] find_mut_post(it, p, r)
    ensures
        match r {
            Some(x) => exists|i: int| 0 <= i < it.remaining().len() && x == #[trigger] it.remaining()[i] && call_ensures(p, (&x,), true)
                && (forall|j: int| 0 <= j < i ==> call_ensures(p, (&#[trigger] it.remaining()[j],), false))
                && (forall|j: int| 0 <= j < it.remaining().len() && j != i ==> *final(#[trigger] it.remaining()[j]) == *it.remaining()[j]),
            None => (forall|j: int| 0 <= j < it.remaining().len() ==> call_ensures(p, (&#[trigger] it.remaining()[j],), false))
                && (forall|j: int| 0 <= j < it.remaining().len() ==> *final(#[trigger] it.remaining()[j]) == *it.remaining()[j]),
        }
{}
// PROVED bridging lemma for IterMut (the analogue of lemma_as_ref_index): facts about `remaining()[j]` become usable
// from a goal that mentions `slice@[j]`
pub broadcast proof fn lemma_iter_mut_bridge<'a, T>(rem: Seq<&'a mut T>, s: Seq<T>, j: int)
    requires rem.len() == s.len(), 0 <= j < s.len(), forall|i: int| 0 <= i < rem.len() ==> *(#[trigger] rem[i]) == s[i]
    ensures #![trigger rem.len(), s[j]] *rem[j] == s[j]
{}
