// ---- prelude/alloc.rs : R5 wrapper.  The precondition is C14's allocation clause. ----
pub const ALLOC_LIMIT: usize = 65536;
#[verifier::external_body]
pub fn verif_vec_from_elem(e: u8, n: usize) -> (r: Vec<u8>)
    requires n <= ALLOC_LIMIT   // O-ALLOC: no allocation proportional to a merely declared length
    ensures r@.len() == n
{ vec![e; n] }
