// ---- prelude/alloc.rs : R5 wrapper.  The precondition is C14's allocation clause. ----
pub const ALLOC_LIMIT: usize = 65536;
#[verifier::external_body]
pub fn verif_vec_from_elem(e: u8, n: usize) -> (r: Vec<u8>)
    requires n <= ALLOC_LIMIT   // O-ALLOC: no allocation proportional to a merely declared length
    ensures r@.len() == n
{ vec![e; n] }

#[verifier::external_body]
pub fn verif_vec_with_capacity<T>(n: usize) -> (r: Vec<T>)
    requires n <= ALLOC_LIMIT
    ensures r@.len() == 0
{ Vec::with_capacity(n) }
#[verifier::external_body]
pub fn verif_vec_resize(v: &mut Vec<u8>, n: usize, x: u8)
    requires n <= ALLOC_LIMIT
    ensures final(v)@.len() == n, forall|i: int| 0 <= i < old(v)@.len() && i < n ==> final(v)@[i] == old(v)@[i]
{ v.resize(n, x) }
#[verifier::external_body]
pub fn verif_vec_reserve<T>(v: &mut Vec<T>, n: usize)
    requires n <= ALLOC_LIMIT
    ensures final(v)@ == old(v)@
{ v.reserve(n) }
