// ---- prelude/sync.rs : ASSUMED contracts for std::sync::{Mutex, MutexGuard, Condvar} (A-MUTEX, DESIGN 3.3) ----
#[verifier::external_type_specification]
#[verifier::external_body]
#[verifier::reject_recursive_types(T)]
pub struct ExMutex<T: ?Sized>(std::sync::Mutex<T>);

#[verifier::external_type_specification]
#[verifier::external_body]
#[verifier::reject_recursive_types(T)]
pub struct ExMutexGuard<'a, T: ?Sized + 'a>(std::sync::MutexGuard<'a, T>);

#[verifier::external_type_specification]
#[verifier::external_body]
#[verifier::reject_recursive_types(T)]
pub struct ExPoisonError<T>(std::sync::PoisonError<T>);

#[verifier::external_type_specification]
#[verifier::external_body]
pub struct ExCondvar(std::sync::Condvar);

// the value protected by the mutex, as seen through a guard
pub uninterp spec fn gval<'a, 'b, T: ?Sized>(g: &'b std::sync::MutexGuard<'a, T>) -> &'b T;
// the protected value at the moment this guard (re)acquired the lock: lock(), and the return of Condvar::wait / wait_timeout.
// Mutation through the guard changes gval, not acq: a critical section is the step  acq(&g) -> gval(&g)
pub uninterp spec fn acq<'a, 'b, T: ?Sized>(g: &'b std::sync::MutexGuard<'a, T>) -> &'b T;
// which mutex a guard belongs to
pub uninterp spec fn guard_of<'a, T: ?Sized>(g: &std::sync::MutexGuard<'a, T>) -> &'a std::sync::Mutex<T>;

pub assume_specification<'a, 'b, T: ?Sized>[ <std::sync::MutexGuard<'a, T> as core::ops::Deref>::deref ](g: &'b std::sync::MutexGuard<'a, T>) -> (r: &'b T)
    ensures r == gval(g);
pub assume_specification<'a, 'b, T: ?Sized>[ <std::sync::MutexGuard<'a, T> as core::ops::DerefMut>::deref_mut ](g: &'b mut std::sync::MutexGuard<'a, T>) -> (r: &'b mut T)
    ensures &*r == gval(old(g)), gval(final(g)) == &*final(r), guard_of(final(g)) == guard_of(old(g)), acq(final(g)) == acq(old(g));

pub assume_specification<T: ?Sized>[ std::sync::Mutex::<T>::lock ](m: &std::sync::Mutex<T>) -> (r: std::sync::LockResult<std::sync::MutexGuard<'_, T>>)
    ensures r is Ok, guard_of(&r->Ok_0) == m, acq(&r->Ok_0) == gval(&r->Ok_0);
