// ---- prelude/deps_ascii_str.rs : AsciiStr stand-in, Deref AsciiString -> AsciiStr, from_ascii on &str (dependency `ascii`) ----
#[verifier::external_body]
pub struct AsciiStr { s: str }
impl View for AsciiStr { type V = Seq<char>; uninterp spec fn view(&self) -> Seq<char>; }
impl AsciiStr {
    #[verifier::external_body]
    pub fn as_str(&self) -> (r: &str) ensures r@ == self@ { unimplemented!() }
}
impl core::ops::Deref for AsciiString {
    type Target = AsciiStr;
    #[verifier::external_body]
    fn deref(&self) -> (r: &AsciiStr) ensures r@ == self@ { unimplemented!() }
}
pub open spec fn str_is_ascii(s: Seq<char>) -> bool { forall|i: int| 0 <= i < s.len() ==> (#[trigger] s[i] as u32) < 128 }
/// a &str handed to from_ascii stands for its UTF-8 bytes; for an all-ASCII string these are its characters
pub broadcast axiom fn axiom_bytes_of_str(s: &str)
    ensures (all_ascii(#[trigger] bytes_of::<&str>(s)) <==> str_is_ascii(s@)),
            str_is_ascii(s@) ==> bytes_of::<&str>(s) == ascii_to_bytes(s@);

// char::is_whitespace: vstd's own definition (Unicode White_Space)
pub open spec fn is_ws(c: char) -> bool { vstd::std_specs::char::is_white_space(c) }
pub open spec fn has_whitespace(s: Seq<char>) -> bool { exists|i: int| 0 <= i < s.len() && is_ws(#[trigger] s[i]) }
// str::contains with a `fn(char) -> bool` pattern: true iff some character satisfies it
#[verifier::external_body]
pub broadcast proof fn axiom_contains_fn<F: FnOnce(char) -> bool>(s: Seq<char>, p: F, r: bool)
    requires #[trigger] contains_post::<F>(s, p, r)
    ensures r == (exists|i: int| 0 <= i < s.len() && call_ensures(p, (#[trigger] s[i],), true)),
            forall|i: int| 0 <= i < s.len() ==> call_ensures(p, (#[trigger] s[i],), true) || call_ensures(p, (s[i],), false)
{}
