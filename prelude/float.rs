// ---- prelude/float.rs : ASSUMED model of f32 ordering (IEEE 754 as std documents it), used for C14 only ----
//  is_nan(x)   x is a NaN
//  fkey(x)     an order-embedding of the non-NaN floats into the integers (-0.0 and +0.0 get the same key)
//  fcmp(a, b)  what `a.partial_cmp(&b)` returns: None exactly when a NaN is involved, else the order of the keys
pub uninterp spec fn is_nan(x: f32) -> bool;
pub uninterp spec fn fkey(x: f32) -> int;
pub open spec fn int_cmp(a: int, b: int) -> Ordering { if a < b { Ordering::Less } else if a == b { Ordering::Equal } else { Ordering::Greater } }
pub open spec fn fcmp(a: f32, b: f32) -> Option<Ordering> { if is_nan(a) || is_nan(b) { None } else { Some(int_cmp(fkey(a), fkey(b))) } }

pub open spec fn f_le(a: f32, b: f32) -> bool { fcmp(a, b) == Some(Ordering::Less) || fcmp(a, b) == Some(Ordering::Equal) }

// R24 wrappers (same std call inside)
#[verifier::external_body]
pub fn verif_f32_le(a: f32, b: f32) -> (r: bool)
    ensures r == f_le(a, b)
{ a <= b }
#[verifier::external_body]
pub fn verif_f32_partial_cmp(a: &f32, b: &f32) -> (r: Option<Ordering>)
    ensures r == fcmp(*a, *b)
{ a.partial_cmp(b) }
#[verifier::external_body]
pub fn verif_f32_is_nan(a: f32) -> (r: bool)
    ensures r == is_nan(a)
{ a.is_nan() }

// slice::sort_by, std documentation: "May panic if `compare` does not implement a total order".  Stated over the
// elements being sorted: there is a key into the integers (passed as a ghost witness by the rewrite) such that every
// outcome the comparator can produce is the order of the keys.
#[verifier::external_body]
pub fn verif_sort_by<T, F: FnMut(&T, &T) -> Ordering>(v: &mut Vec<T>, f: F, Ghost(key): Ghost<spec_fn(T) -> int>)
    requires
        forall|i: int, j: int| 0 <= i < old(v)@.len() && 0 <= j < old(v)@.len() ==> call_requires(f, (&#[trigger] old(v)@[i], &#[trigger] old(v)@[j])),
        forall|i: int, j: int, o: Ordering| 0 <= i < old(v)@.len() && 0 <= j < old(v)@.len() && #[trigger] call_ensures(f, (&old(v)@[i], &old(v)@[j]), o)
            ==> o == int_cmp(key(old(v)@[i]), key(old(v)@[j])),
    ensures
        // a permutation ...
        final(v)@.len() == old(v)@.len(),
        forall|i: int| 0 <= i < final(v)@.len() ==> old(v)@.contains(#[trigger] final(v)@[i]),
        forall|i: int| 0 <= i < old(v)@.len() ==> final(v)@.contains(#[trigger] old(v)@[i]),
        // ... in the order of the keys
        forall|i: int, j: int| 0 <= i <= j < final(v)@.len() ==> key(#[trigger] final(v)@[i]) <= key(#[trigger] final(v)@[j]),
{ v.sort_by(f) }

// Vec::retain keeps, in order, exactly the elements for which the predicate returned true
pub assume_specification<T, A: core::alloc::Allocator, F: FnMut(&T) -> bool>[ Vec::<T, A>::retain::<F> ](v: &mut Vec<T, A>, f: F)
    requires forall|i: int| 0 <= i < old(v)@.len() ==> call_requires(f, (&#[trigger] old(v)@[i],)),
    ensures
        final(v)@.len() <= old(v)@.len(),
        forall|i: int| 0 <= i < final(v)@.len() ==> old(v)@.contains(#[trigger] final(v)@[i]) && call_ensures(f, (&final(v)@[i],), true),
        // an element on which the predicate cannot answer `false` is kept
        forall|i: int| 0 <= i < old(v)@.len() && !call_ensures(f, (&#[trigger] old(v)@[i],), false) ==> final(v)@.contains(old(v)@[i]);
