// ---- prelude/option.rs : ASSUMED contracts for Option / Result combinators vstd does not specify (std documentation) ----
pub assume_specification<T, U, F: FnOnce(T) -> U>[ Option::<T>::map_or ](o: Option<T>, default: U, f: F) -> (r: U)
    ensures match o { Some(x) => call_ensures(f, (x,), r), None => r == default };
pub assume_specification<T, U, D: FnOnce() -> U, F: FnOnce(T) -> U>[ Option::<T>::map_or_else ](o: Option<T>, default: D, f: F) -> (r: U)
    ensures match o { Some(x) => call_ensures(f, (x,), r), None => call_ensures(default, (), r) };
pub assume_specification<T, F: FnOnce(T) -> bool>[ Option::<T>::is_some_and ](o: Option<T>, f: F) -> (r: bool)
    ensures match o { Some(x) => call_ensures(f, (x,), r), None => !r };
pub assume_specification<T>[ Option::<T>::or ](o: Option<T>, b: Option<T>) -> (r: Option<T>)
    ensures r == (if o is Some { o } else { b });
pub assume_specification<T, E>[ Result::<T, E>::unwrap_or ](o: Result<T, E>, d: T) -> (r: T)
    ensures r == (match o { Ok(x) => x, Err(_) => d });
pub assume_specification<T, E, U, F: FnOnce(T) -> Result<U, E>>[ Result::<T, E>::and_then ](o: Result<T, E>, f: F) -> (r: Result<U, E>)
    ensures match o { Ok(x) => call_ensures(f, (x,), r), Err(e) => r == Err::<U, E>(e) };

// std::mem::replace (vstd specifies swap and Option::take, not replace)
pub assume_specification<T>[ core::mem::replace::<T> ](dest: &mut T, src: T) -> (r: T)
    ensures *final(dest) == src, r == *old(dest),
    opens_invariants none
    no_unwind;

// Result::or (std): the value if Ok, otherwise the alternative
pub assume_specification<T, E, F>[ Result::<T, E>::or ](r: Result<T, E>, res: Result<T, F>) -> (o: Result<T, F>)
    ensures match r { Ok(t) => o == Ok::<T, F>(t), Err(_) => o == res };

// `impl<T> From<T> for T` / `impl<T, U: From<T>> Into<U> for T` (std: "From<T> for T implies Into<T> for T, it is reflexive"):
// converting a value into its own type returns it unchanged
#[verifier::external_body]
pub broadcast proof fn axiom_into_reflexive<T>(a: T, r: T)
    requires #[trigger] call_ensures(<T as Into<T>>::into, (a,), r)
    ensures r == a
{}
