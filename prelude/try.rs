// ---- prelude/try.rs : ASSUMED: the `?` operator converts the error value with From::from (Rust semantics;
// vstd leaves its `spec_from` uninterpreted for user types) ----
pub broadcast axiom fn axiom_spec_from<S: From<T>, T>(v: T, r: S)
    ensures #[trigger] vstd::std_specs::control_flow::spec_from::<S, T>(v, r) ==> call_ensures(<S as From<T>>::from, (v,), r);

// std: `impl<T> From<T> for T` is the identity, hence so is `Into<T> for T`
pub broadcast axiom fn axiom_into_self<T>(x: T, r: T)
    ensures #[trigger] call_ensures(<T as Into<T>>::into, (x,), r) ==> r == x;
