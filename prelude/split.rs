// ---- prelude/split.rs : ASSUMED model of str::split(char) / str::splitn(n, char) (std documentation) ----
// `core::str::Split<'a, P>` is generic over `P: Pattern` and cannot be declared to this Verus; rewrite R25 routes the two
// calls through local opaque iterator types whose `next()` carries the std semantics:
//   split:  the text up to the first separator (all of it if there is none); the rest after that separator comes next;
//           an empty text still yields one (empty) part; after a part without separator the iterator is exhausted
//   splitn: the same, but the n-th part is everything that is left, separators included
pub open spec fn no_sep(s: Seq<char>, c: char) -> bool { forall|i: int| 0 <= i < s.len() ==> #[trigger] s[i] != c }
pub open spec fn first_sep(s: Seq<char>, c: char, k: int) -> bool { 0 <= k < s.len() && s[k] == c && no_sep(s.take(k), c) }
/// the text up to the first separator (all of it if there is none) ...
pub open spec fn head_of(s: Seq<char>, c: char) -> Seq<char> { if no_sep(s, c) { s } else { s.take(choose|k: int| first_sep(s, c, k)) } }
/// ... and what follows that separator (None if there is none)
pub open spec fn tail_of(s: Seq<char>, c: char) -> Option<Seq<char>> { if no_sep(s, c) { None } else { Some(s.skip((choose|k: int| first_sep(s, c, k)) + 1)) } }
/// PROVED: the first separator is unique, so head_of / tail_of are what any witness k gives
pub proof fn lemma_first_sep(s: Seq<char>, c: char, k: int)
    requires first_sep(s, c, k)
    ensures !no_sep(s, c), head_of(s, c) == s.take(k), tail_of(s, c) == Some(s.skip(k + 1))
{
    assert(s[k] == c);
    let k2 = choose|k2: int| first_sep(s, c, k2);
    if k2 < k { assert(s.take(k)[k2] == c); } else if k < k2 { assert(s.take(k2)[k] == c); }
}
pub proof fn lemma_has_sep(s: Seq<char>, c: char)
    requires !no_sep(s, c)
    ensures exists|k: int| first_sep(s, c, k)
    decreases s.len()
{
    let i = choose|i: int| 0 <= i < s.len() && s[i] == c;
    if no_sep(s.take(i), c) { assert(first_sep(s, c, i)); }
    else {
        lemma_has_sep(s.take(i), c);
        let k = choose|k: int| first_sep(s.take(i), c, k);
        assert(s.take(i).take(k) =~= s.take(k));
        assert(first_sep(s, c, k));
    }
}

/// PROVED: the parts are sub-sequences of the text (so: ASCII text has ASCII parts)
pub proof fn lemma_parts_ascii(s: Seq<char>, c: char)
    ensures
        (forall|i: int| 0 <= i < s.len() ==> (#[trigger] s[i] as u32) < 128) ==>
            (forall|i: int| 0 <= i < head_of(s, c).len() ==> (#[trigger] head_of(s, c)[i] as u32) < 128)
            && (tail_of(s, c) is Some ==> forall|i: int| 0 <= i < tail_of(s, c)->Some_0.len() ==> (#[trigger] tail_of(s, c)->Some_0[i] as u32) < 128),
{
    if !no_sep(s, c) {
        lemma_has_sep(s, c);
        let k = choose|k: int| first_sep(s, c, k);
        lemma_first_sep(s, c, k);
        assert(forall|i: int| 0 <= i < s.take(k).len() ==> #[trigger] s.take(k)[i] == s[i]);
        assert(forall|i: int| 0 <= i < s.skip(k + 1).len() ==> #[trigger] s.skip(k + 1)[i] == s[i + k + 1]);
    }
}

#[verifier::external_body]
pub struct VerifSplitChar<'a> { it: core::str::Split<'a, char> }
impl<'a> VerifSplitChar<'a> {
    /// the text not yet handed out (None: exhausted) and the separator
    pub uninterp spec fn rest(&self) -> Option<Seq<char>>;
    pub uninterp spec fn sep(&self) -> char;
    #[verifier::external_body]
    pub fn next(&mut self) -> (r: Option<&'a str>)
        ensures
            final(self).sep() == old(self).sep(),
            match old(self).rest() {
                None => r is None && final(self).rest() is None,
                Some(s) => r is Some && r->Some_0@ == head_of(s, old(self).sep()) && final(self).rest() == tail_of(s, old(self).sep()),
            },
    { self.it.next() }
}
#[verifier::external_body]
pub fn verif_split_char<'a>(s: &'a str, c: char) -> (r: VerifSplitChar<'a>)
    ensures r.rest() == Some(s@), r.sep() == c
{ VerifSplitChar { it: s.split(c) } }

#[verifier::external_body]
pub struct VerifSplitNChar<'a> { it: core::str::SplitN<'a, char> }
impl<'a> VerifSplitNChar<'a> {
    pub uninterp spec fn rest(&self) -> Option<Seq<char>>;
    pub uninterp spec fn sep(&self) -> char;
    /// how many more parts may be produced
    pub uninterp spec fn left(&self) -> nat;
    #[verifier::external_body]
    pub fn next(&mut self) -> (r: Option<&'a str>)
        ensures
            final(self).sep() == old(self).sep(),
            match old(self).rest() {
                None => r is None && final(self).rest() is None,
                Some(s) =>
                    if old(self).left() == 0 { r is None && final(self).rest() is None }
                    else if old(self).left() == 1 { r is Some && r->Some_0@ == s && final(self).rest() is None }
                    else { r is Some && final(self).left() == old(self).left() - 1
                        && r->Some_0@ == head_of(s, old(self).sep()) && final(self).rest() == tail_of(s, old(self).sep()) },
            },
    { self.it.next() }
}
#[verifier::external_body]
pub fn verif_splitn_char<'a>(s: &'a str, n: usize, c: char) -> (r: VerifSplitNChar<'a>)
    ensures r.rest() == Some(s@), r.sep() == c, r.left() == n
{ VerifSplitNChar { it: s.splitn(n, c) } }

// str::split_once (std): the text before and after the FIRST occurrence of the delimiter, None if it does not occur
pub open spec fn first_sub(s: Seq<char>, p: Seq<char>, k: int) -> bool {
    0 <= k && k + p.len() <= s.len() && s.subrange(k, k + p.len()) == p
        && forall|j: int| 0 <= j < k ==> #[trigger] s.subrange(j, j + p.len()) != p
}
#[verifier::external_body]
pub fn verif_split_once_char<'a>(s: &'a str, c: char) -> (r: Option<(&'a str, &'a str)>)
    ensures match r {
        Some(t) => tail_of(s@, c) is Some && t.1@ == tail_of(s@, c)->Some_0 && t.0@ == head_of(s@, c),
        None => tail_of(s@, c) is None,
    }
{ s.split_once(c) }
#[verifier::external_body]
pub fn verif_split_once_str<'a>(s: &'a str, p: &str) -> (r: Option<(&'a str, &'a str)>)
    ensures match r {
        Some(t) => exists|k: int| first_sub(s@, p@, k) && t.0@ == s@.take(k) && t.1@ == s@.skip(k + p@.len()),
        None => forall|k: int| !(0 <= k && k + p@.len() <= s@.len() && #[trigger] s@.subrange(k, k + p@.len()) == p@),
    }
{ s.split_once(p) }
