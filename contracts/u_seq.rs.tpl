// UNIT U-SEQ: util/sequential.rs  writer side  (DESIGN 5 / C01, C06, C10)
#![allow(unused_imports, dead_code, unused_variables, unused_mut)]
use vstd::prelude::*;
use std::io::Result as IoResult;
use std::io::{Read, Write};
use std::sync::mpsc::channel;
use std::sync::mpsc::{Receiver, Sender};
use std::sync::{Arc, Mutex};
use std::mem;

verus! {
//@include prelude/io_error.rs
//@include prelude/chan.rs
//@include prelude/sync.rs
//@include prelude/option.rs

// ---- turn tokens (DESIGN 3.2).  finished(c): "the writer whose on_finish sender is channel c has
// been dropped (has signalled)".  Stable, hence a timeless fact: what is KNOWN at a program point
// is what earlier statements on the path established.
pub uninterp spec fn finished(ch: int) -> bool;
// effect witness: only `send` can establish it
pub uninterp spec fn signalled(ch: int) -> bool;

pub assume_specification<T>[ std::sync::mpsc::channel::<T> ]() -> (r: (Sender<T>, Receiver<T>))
    ensures tx_chan(&r.0) == rx_chan(&r.1);
// Releasing the successor is a capability (premise P3 of L-ORDER: no write of writer k after its Drop(k) event):
// only SequentialWriter::drop is given may_signal(); a write/flush that signalled would let the next
// response start while this writer can still write.
pub uninterp spec fn may_signal(ch: int) -> bool;
pub assume_specification<T>[ Sender::<T>::send ](s: &Sender<T>, t: T) -> (r: Result<(), std::sync::mpsc::SendError<T>>)
    requires may_signal(tx_chan(s)),
    ensures signalled(tx_chan(s));
// A-CHAN: a recv on a turn channel returns only after the (single) sender has sent, and that
// sender is owned by the predecessor writer, whose drop sends before the field is dropped.
pub assume_specification<T>[ Receiver::<T>::recv ](s: &Receiver<T>) -> (r: Result<T, std::sync::mpsc::RecvError>)
    ensures r is Ok, finished(rx_chan(s));


pub assume_specification<T>[ Mutex::<T>::new ](t: T) -> (m: Mutex<T>);

#[verifier::external_trait_specification]
pub trait ExWrite {
    type ExternalTraitSpecificationFor: std::io::Write;
    fn write(&mut self, buf: &[u8]) -> (r: std::io::Result<usize>)
        ensures r is Ok ==> r->Ok_0 <= buf@.len();
    fn flush(&mut self) -> (r: std::io::Result<()>);
}

#[verifier::reject_recursive_types(W)]
//@item src/util/sequential.rs struct SequentialWriterBuilder
#[verifier::reject_recursive_types(W)]
//@item src/util/sequential.rs struct SequentialWriter

impl<W: Write + Send> SequentialWriterBuilder<W> {
    /// the finish channel of the writer issued last (None before the first)
    pub closed spec fn last_issued(&self) -> Option<int> {
        match self.next_trigger { Some(r) => Some(rx_chan(&r)), None => None }
    }
    pub closed spec fn sink(&self) -> Arc<Mutex<W>> { self.writer }
}

impl<W: Write + Send> SequentialWriter<W> {
    /// the channel on which this writer still has to wait for its predecessor (None: it is its turn)
    pub closed spec fn pred_chan(&self) -> Option<int> {
        match self.trigger { Some(r) => Some(rx_chan(&r)), None => None }
    }
    pub closed spec fn finish_chan(&self) -> int { tx_chan(&self.on_finish) }
    pub closed spec fn sink(&self) -> Arc<Mutex<W>> { self.writer }
}

//@impl src/util/sequential.rs "SequentialWriterBuilder<W>"
//@fn new ret r props C01
//@spec
    ensures r.last_issued() is None,
//@endfn
//@endimpl

//@impl src/util/sequential.rs "Iterator for SequentialWriterBuilder<W>" inherent
//@fn next ret r props C01,C06,C10
//@spec
    ensures
        // O-CHAIN: the new writer waits for exactly the writer issued before it, and becomes the
        // one the next writer will wait for; all writers share the builder's sink
        r is Some,
        r->Some_0.pred_chan() == old(self).last_issued(),
        final(self).last_issued() == Some(r->Some_0.finish_chan()),
        r->Some_0.sink() == old(self).sink(),
        final(self).sink() == old(self).sink(),
//@endfn
//@endimpl

//@impl src/util/sequential.rs "Write for SequentialWriter<W>"
//@fn write ret res props C01
//@spec
    ensures
        // O-WRITE-WAITS (premise P1 of L-ORDER)
        final(self).pred_chan() is None,
        old(self).pred_chan() is Some ==> finished(old(self).pred_chan()->Some_0),
        final(self).finish_chan() == old(self).finish_chan(),
        final(self).sink() == old(self).sink(),
        res is Ok ==> res->Ok_0 <= buf@.len(),
//@before? 1 self . writer . lock
        // the shared sink is touched only once the predecessor is known to have finished
        proof { assert(old(self).pred_chan() is Some ==> finished(old(self).pred_chan()->Some_0)); }
//@endfn
//@fn flush ret res props C01
//@spec
    ensures
        final(self).pred_chan() is None,
        old(self).pred_chan() is Some ==> finished(old(self).pred_chan()->Some_0),
        final(self).finish_chan() == old(self).finish_chan(),
        final(self).sink() == old(self).sink(),
//@before? 1 self . writer . lock
        proof { assert(old(self).pred_chan() is Some ==> finished(old(self).pred_chan()->Some_0)); }
//@endfn
//@endimpl

//@impl src/util/sequential.rs "Drop for SequentialWriter<W>" inherent
//@fn drop as drop_body props C01,C06,C10
//@spec
    ensures
        // the successor is released on every path ...
        signalled(old(self).finish_chan()),
        // ... O-DROP-WAITS (premise P2 of L-ORDER): but only after this writer's own predecessor has finished
        old(self).pred_chan() is Some ==> finished(old(self).pred_chan()->Some_0),
//@entry
        proof { assume(may_signal(self.finish_chan())); }   // drop is THE release point of this writer's turn
//@before? 1 self . on_finish . send
        proof { assert(old(self).pred_chan() is Some ==> finished(old(self).pred_chan()->Some_0)); }
//@endfn
//@endimpl

//@include lemmas/l_order.rs

} // verus!
fn main() {}
