// UNIT U-RESP: response.rs  Response::raw_print, add_header, constructors  (DESIGN 5 / C04, C05 second sentence, C19)
#![feature(pattern)]
#![allow(unused_imports, dead_code, unused_variables, unused_mut, non_snake_case)]
#![verifier::allow(undeclared_external_trait)]
use vstd::prelude::*;
use std::io::Error as IoError;
use std::io::Result as IoResult;
use std::io::{self, Cursor, Read, Write};
use std::str::FromStr;
use std::cmp::Ordering;
use std::sync::mpsc::Receiver;
use std::fmt;
use vstd::string::StringSliceAdditionalSpecFns;

verus! {
//@include prelude/io.rs
//@include prelude/chan.rs
//@include prelude/iter.rs
//@include prelude/str.rs
//@include prelude/option.rs
//@include prelude/try.rs
//@include prelude/alloc.rs

#[verifier::external_type_specification]
#[verifier::external_body]
pub struct ExEmpty(std::io::Empty);

// effect witnesses (DESIGN 3.4)
pub uninterp spec fn head_written(status: u16, major: u8, minor: u8, hs: Seq<Header>) -> bool;
pub uninterp spec fn head_done(status: u16, major: u8, minor: u8) -> bool;
pub uninterp spec fn body_copied_identity(body: Seq<u8>) -> bool;
pub uninterp spec fn body_copied_chunked(body: Seq<u8>) -> bool;

// Writing raw bytes to the connection is a capability that NO function of this unit is given: everything raw_print puts on
// the wire goes through write_message_header (the head), io::copy (the body) or the chunk encoder, each under its own
// obligation -- a direct `writer.write(..)` in raw_print would be bytes outside the message framing (C04)
pub uninterp spec fn may_write_raw() -> bool;
#[verifier::external_trait_specification]
pub trait ExWrite {
    type ExternalTraitSpecificationFor: std::io::Write;
    fn write(&mut self, buf: &[u8]) -> (r: std::io::Result<usize>)
        requires may_write_raw();
    fn flush(&mut self) -> (r: std::io::Result<()>);
    fn by_ref(&mut self) -> (r: &mut Self) where Self: Sized
        ensures *r == *old(self), *final(r) == *final(self);
}

//@include contracts/common_types.inc
//@include contracts/version_cmp.inc
//@include contracts/header_lookup.inc

//@include contracts/common_api_assumed.inc

// R22: byte-string literals (the extractor has checked that TEXT is plain ASCII)
#[verifier::external_body]
pub fn verif_lit_bytes(s: &'static str) -> (r: &'static [u8])
    ensures all_ascii(bytes_of::<&[u8]>(r)), chars_of::<&[u8]>(r) == s@
{ s.as_bytes() }
// R8: Display of a usize is its decimal representation
pub uninterp spec fn dec_digits(n: usize) -> Seq<char>;
pub broadcast axiom fn axiom_dec_digits(n: usize)
    ensures plain_decimal(#[trigger] dec_digits(n)) == Some(n), str_is_ascii(dec_digits(n));
#[verifier::external_body]
pub fn verif_fmt_display(n: usize) -> (r: String)
    ensures r@ == dec_digits(n)
{ format!("{}", n) }
pub assume_specification[ String::as_bytes ](s: &String) -> (r: &[u8])
    ensures chars_of::<&[u8]>(r) == s@, all_ascii(bytes_of::<&[u8]>(r)) <==> str_is_ascii(s@);
// vstd specifies str::as_bytes as `r@ == s.spec_bytes()` (UTF-8); for ASCII text these are the characters
pub broadcast axiom fn axiom_str_bytes(s: &str)
    ensures (all_ascii(#[trigger] s.spec_bytes()) <==> str_is_ascii(s@)), str_is_ascii(s@) ==> s.spec_bytes() == ascii_to_bytes(s@);
pub broadcast axiom fn axiom_slice_as_bytes(b: &[u8])
    ensures #[trigger] bytes_of::<&[u8]>(b) == b@;
pub broadcast axiom fn axiom_chars_of_ascii_bytes(b: &[u8], t: Seq<char>)
    requires str_is_ascii(t), b@ == ascii_to_bytes(t)
    ensures #![trigger chars_of::<&[u8]>(b), ascii_to_bytes(t)] chars_of::<&[u8]>(b) == t;
pub broadcast axiom fn axiom_slice_as_chars(b: &[u8])
    ensures all_ascii(b@) ==> ascii_to_bytes(#[trigger] chars_of::<&[u8]>(b)) == b@ && str_is_ascii(chars_of::<&[u8]>(b));

// R21: io::copy copies everything the reader will still deliver (std documentation)
#[verifier::external_body]
pub fn verif_io_copy<R: Read + ?Sized, W: Write + ?Sized>(r: &mut R, w: &mut W) -> (res: IoResult<u64>)
    ensures res is Ok ==> copied_once() && (*final(r)).stream().len() == 0
{ io::copy(r, w) }
pub uninterp spec fn copied(body: Seq<u8>) -> bool;
pub uninterp spec fn copied_once() -> bool;

// dependency chunked_transfer::Encoder: opaque; ASSUMED to write the chunked coding of what is written to it and the
// terminating chunk when dropped
#[verifier::external_body]
#[verifier::reject_recursive_types(W)]
pub struct Encoder<W: Write> { w: W }
impl<W: Write> Encoder<W> {
    #[verifier::external_body]
    pub fn new(w: W) -> (r: Encoder<W>) ensures encoder_made() { unimplemented!() }
}
pub uninterp spec fn encoder_made() -> bool;
#[verifier::external] impl<W: Write> Write for Encoder<W> { fn write(&mut self, buf: &[u8]) -> io::Result<usize> { unimplemented!() } fn flush(&mut self) -> io::Result<()> { unimplemented!() } }

// R3/R3b wrapper
pub uninterp spec fn dyn_stream(b: &Box<dyn Read>) -> Seq<u8>;
#[verifier::external_body]
pub fn verif_box_dyn_Read<R: Read>(x: Box<R>) -> (r: Box<dyn Read>)
    ensures dyn_stream(&r) == (*x).stream()
{ unimplemented!() }

// local opaque reader for `Cursor<Vec<u8>>` (R19)
#[verifier::external_body]
pub struct VerifCursor { c: Cursor<Vec<u8>> }
pub uninterp spec fn cursor_rest(c: &VerifCursor) -> Seq<u8>;
impl ReadSpecImpl for VerifCursor {
    open spec fn stream(&self) -> Seq<u8> { cursor_rest(self) }
    open spec fn failed(&self) -> bool { false }
    open spec fn release(&self) -> Seq<u8> { Seq::empty() }
    open spec fn drained(&self) -> Seq<u8> { Seq::empty() }
    open spec fn owns_source(&self) -> bool { false }
}
#[verifier::external] impl Read for VerifCursor { fn read(&mut self, buf: &mut [u8]) -> io::Result<usize> { self.c.read(buf) } }
#[verifier::external_body]
pub fn verif_cursor(v: Vec<u8>) -> (r: VerifCursor) ensures cursor_rest(&r) == v@ { unimplemented!() }

//@item src/response.rs enum TransferEncoding
#[verifier::reject_recursive_types(R)]
//@item src/response.rs struct Response

//@impl src/common.rs "Header"
//@fn from_bytes ret r
//@assume
//@spec
    // PROVED on the real body in U-PARSE (tools/linkcheck.py compares the texts; AsciiString::from_ascii itself is the dependency's)
    ensures
        (r is Ok) == (all_ascii(bytes_of(header)) && all_ascii(bytes_of(value))),
        r is Ok ==> r->Ok_0.field.name() == chars_of(header) && r->Ok_0.value@ == chars_of(value),
//@endfn
//@endimpl

//@fn src/response.rs build_date_header ret r
//@assume
//@spec
    ensures hdr_is(r, "Date"@),
//@endfn

//@fn src/response.rs write_message_header ret r
//@assume
//@spec
    // ASSUMED (core::fmt code): serialises exactly this status line and this header list, then the blank line
    ensures r is Ok ==> head_written(status_code.0, http_version.0, http_version.1, headers@) && head_done(status_code.0, http_version.0, http_version.1),
//@endfn

pub open spec fn no_body_status(s: u16) -> bool { (100 <= s && s <= 199) || s == 204 || s == 304 }
//@include contracts/cte_table.inc
//@fn src/response.rs choose_transfer_encoding ret r
//@assume
//@spec
    ensures
        // both clauses are PROVED on the real body in U-CTE (tools/linkcheck.py compares the texts); K-CTE (Kani) re-proves
        // the second one independently for requests without headers
        lex_cmp((http_version.0, http_version.1), (1, 0)) != Ordering::Greater || status_code.0 < 200 || status_code.0 == 204 ==> r is Identity,
        !has_hdr(request_headers@, "TE"@) && !has_additional_headers ==> ((r is Chunked) == cte_table(status_code.0, *http_version, *entity_length, chunked_threshold)),
//@endfn

impl<R> Response<R> {
    pub closed spec fn status(&self) -> u16 { self.status_code.0 }
    pub closed spec fn hdrs(&self) -> Seq<Header> { self.headers@ }
    pub closed spec fn declared(&self) -> Option<usize> { self.data_length }
    pub closed spec fn threshold(&self) -> usize { match self.chunked_threshold { Some(t) => t, None => 32768 } }
    pub closed spec fn body_reader(&self) -> R { self.reader }
    pub closed spec fn code(&self) -> StatusCode { self.status_code }
}

/// does the list contain a header with that name?
pub open spec fn has_any(hs: Seq<Header>, name: Seq<char>) -> bool { exists|i: int| 0 <= i < hs.len() && hdr_is(#[trigger] hs[i], name) }

/// C19 / C04: what raw_print may put IN FRONT of the application's headers: `Connection: upgrade` + `Upgrade: <token>` on a
/// protocol upgrade, one `Server` and one `Date` header exactly when the application supplied none -- in this order
pub open spec fn pre_ok(pre: Seq<Header>, h0: Seq<Header>, upg: Option<Seq<char>>) -> bool {
    let u: int = if upg is Some { 2 } else { 0 };
    let sv: int = if has_any(h0, "Server"@) { 0 } else { 1 };
    let d: int = if has_any(h0, "Date"@) { 0 } else { 1 };
    &&& pre.len() == u + sv + d
    &&& (upg is Some ==> hdr_is(pre[0], "Connection"@) && pre[0].value@ == "upgrade"@ && hdr_is(pre[1], "Upgrade"@) && pre[1].value@ == upg->Some_0)
    &&& (sv == 1 ==> hdr_is(pre[u], "Server"@))
    &&& (d == 1 ==> hdr_is(pre[u + sv], "Date"@))
}
/// C04 / C05 second sentence: what raw_print appends BEHIND them: exactly one framing header -- `Transfer-Encoding: chunked`
/// (and no Content-Length) for chunked, `Content-Length: <decimal body length>` for identity, nothing on an upgrade
spec fn tail_ok(tail: Seq<Header>, te: Option<TransferEncoding>, n: Option<usize>) -> bool {
    match te {
        None => tail.len() == 0,
        Some(TransferEncoding::Chunked) => tail.len() == 1 && hdr_is(tail[0], "Transfer-Encoding"@) && tail[0].value@ == "chunked"@,
        Some(TransferEncoding::Identity) => n is Some && tail.len() == 1 && hdr_is(tail[0], "Content-Length"@) && tail[0].value@ == dec_digits(n->Some_0),
    }
}
/// "Date" and "Server" are different names (lengths 4 and 6; eq_ic compares lower-cased text of equal length)
pub proof fn lemma_names_differ()
    ensures forall|h: Header| !(hdr_is(h, "Date"@) && hdr_is(h, "Server"@))
{
    reveal_strlit("Date");
    reveal_strlit("Server");
    assert forall|h: Header| !(hdr_is(h, "Date"@) && hdr_is(h, "Server"@)) by {
        if hdr_is(h, "Date"@) && hdr_is(h, "Server"@) {
            assert(lower("Date"@).len() == 4);
            assert(lower("Server"@).len() == 6);
        }
    }
}
pub proof fn lemma_hdr_is_refl(h: Header, name: Seq<char>)
    requires h.field.name() == name
    ensures hdr_is(h, name)
{}

/// C19: what add_header may do with a (converted) header hh
pub open spec fn header_policy(hdrs0: Seq<Header>, decl0: Option<usize>, hh: Header, hdrs1: Seq<Header>, decl1: Option<usize>) -> bool {
    let protected = hdr_is(hh, "Connection"@) || hdr_is(hh, "Trailer"@) || hdr_is(hh, "Transfer-Encoding"@) || hdr_is(hh, "Upgrade"@);
    let is_cl = hdr_is(hh, "Content-Length"@);
    let is_ct = hdr_is(hh, "Content-Type"@);
    // the four protected names are never stored
    &&& (protected ==> hdrs1 == hdrs0 && decl1 == decl0)
    // a supplied Content-Length only sets the declared body length (when it parses) and is never stored
    &&& (!protected && is_cl ==> hdrs1 == hdrs0 && decl1 == (if parse_usize(hh.value@) is Some { parse_usize(hh.value@) } else { decl0 }))
    // everything else that is not a Content-Type is appended, in order
    &&& (!protected && !is_cl && !is_ct ==> hdrs1 == hdrs0.push(hh) && decl1 == decl0)
    // NOT DECIDED for Content-Type headers (append when none is present / overwrite the first one in place): both go through
    // `self.headers.iter_mut().find(..)`, and on a GENERIC struct this Verus loses the link between the vector after the
    // mutable iteration and the vector before it (minimal reproduction: notes/verus_iter_mut_generic_struct.rs.txt; the same
    // code on a non-generic struct verifies, including the in-place overwrite).  Only: the declared length is untouched.
    &&& (!protected && !is_cl && is_ct ==> decl1 == decl0)
}

//@impl src/response.rs "Response<R> where R: Read,"
//@fn chunked_threshold ret r props C05
//@spec
    ensures r == self.threshold(),
//@endfn
//@fn new ret r
//@assume
//@spec
    // ASSUMED (its second loop iterates an mpsc::Receiver, outside this Verus): the given status, body and declared length;
    // the header list is the fold of add_header over `headers` (hence only headers allowed by O-HEADER-POLICY)
    ensures r.status() == status_code.0, r.body_reader() == data, r.threshold() == 32768,
        headers@.len() == 0 ==> r.declared() == data_length && r.hdrs().len() == 0,
        (forall|i: int| 0 <= i < headers@.len() ==> !hdr_is(#[trigger] headers@[i], "Content-Length"@)) ==> r.declared() == data_length,
//@endfn
//@fn with_chunked_threshold ret r props C05
//@spec
    ensures r.threshold() == length, r.status() == self.status(), r.hdrs() == self.hdrs(), r.declared() == self.declared(), r.body_reader() == self.body_reader(),
//@endfn
//@fn with_status_code ret r props C04
//@spec
    ensures call_ensures(S::into, (code,), r.code()), r.hdrs() == self.hdrs(), r.declared() == self.declared(), r.body_reader() == self.body_reader(), r.threshold() == self.threshold(),
//@endfn
//@fn with_data ret r props C19
//@spec
    // with_data replaces the body and its declared length, nothing else
    ensures r.body_reader() == reader, r.declared() == data_length, r.hdrs() == self.hdrs(), r.status() == self.status(), r.threshold() == self.threshold(),
//@endfn
//@fn add_header props C19
//@spec
    ensures
        // O-HEADER-POLICY (C19), stated over the converted header hh = header.into()
        exists|hh: Header| #[trigger] call_ensures(H::into, (header,), hh)
            && header_policy(old(self).hdrs(), old(self).declared(), hh, final(self).hdrs(), final(self).declared()),
        final(self).status() == old(self).status(), final(self).threshold() == old(self).threshold(),
//@entry
        let ghost h_in = header;
        let ghost hdrs0 = self.headers@;
        let ghost decl0 = self.data_length;
        broadcast use axiom_find_mut_post, lemma_iter_mut_bridge;
//@after 1 let header = header.into()
        let ghost hh = header;
//@atexit
        proof {
            assert(call_ensures(H::into, (h_in,), hh));
            assert(header_policy(hdrs0, decl0, hh, self.headers@, self.data_length));
        }
//@closure ~equiv("Content-Type")~ |h: &&mut Header| -> (b: bool) ensures b == hdr_is(*old(*h), "Content-Type"@)
//@endfn
#[verifier::rlimit(200)]
//@fn raw_print ret res props C04,C05,C19
//@spec
    requires upgrade is Some ==> str_is_ascii(upgrade->Some_0@),    // the protocol token comes from the application
    ensures
        // the head is serialised exactly once on every successful path (what it contains: assertions before the call)
        res is Ok ==> head_done(self.status(), http_version.0, http_version.1),
        // O-BODY (C04): the body is copied exactly when a body may be sent (not for HEAD, 1xx, 204, 304, not on upgrade) ...
        res is Ok && !do_not_send_body && !no_body_status(self.status()) && upgrade is None && self.declared() is Some && self.declared()->Some_0 >= 1 ==> copied_once(),
//@entry
        broadcast use axiom_str_bytes, axiom_slice_as_bytes, axiom_slice_as_chars, axiom_chars_of_ascii_bytes, axiom_dec_digits, axiom_find_post, lemma_as_ref_index, lemma_as_ref_index_fwd, axiom_spec_from;
        let ghost h0 = __self.headers@;
        let ghost head_only = do_not_send_body;
        let ghost status0 = __self.status_code.0;
        let ghost body0 = __self.reader.stream();
        let ghost declared0 = __self.data_length;
//@closure ~equiv("Date")~ |h: &Header| -> (b: bool) ensures b == hdr_is(*h, "Date"@)
//@closure ~equiv("Server")~ |h: &Header| -> (b: bool) ensures b == hdr_is(*h, "Server"@)
//@before 1 if @after build_date_header
        // ---- state after the Date step
        let ghost h1 = __self.headers@;
        proof {   // [C19,C04]
            broadcast use axiom_any_post;
            assert(has_any(h0, "Date"@) ==> h1 == h0);
            assert(!has_any(h0, "Date"@) ==> h1 =~= seq![h1[0]] + h0 && hdr_is(h1[0], "Date"@));
        }
//@before 1 if let Some(upgrade) = upgrade
        // ---- state after the Server step
        let ghost h2 = __self.headers@;
        proof {   // [C19,C04]
            broadcast use axiom_any_post;
            lemma_names_differ();
            assert(has_any(h1, "Server"@) == has_any(h0, "Server"@)) by {
                if has_any(h1, "Server"@) && !has_any(h0, "Server"@) {
                    let i = choose|i: int| 0 <= i < h1.len() && hdr_is(#[trigger] h1[i], "Server"@);
                    if has_any(h0, "Date"@) { assert(hdr_is(h0[i], "Server"@)); } else if i > 0 { assert(h1[i] == h0[i - 1]); assert(hdr_is(h0[i - 1], "Server"@)); }
                }
                if has_any(h0, "Server"@) && !has_any(h1, "Server"@) {
                    let i = choose|i: int| 0 <= i < h0.len() && hdr_is(#[trigger] h0[i], "Server"@);
                    if has_any(h0, "Date"@) { assert(hdr_is(h1[i], "Server"@)); } else { assert(h1[i + 1] == h0[i]); assert(hdr_is(h1[i + 1], "Server"@)); }
                }
            }
            assert(has_any(h0, "Server"@) ==> h2 == h1);
            assert(!has_any(h0, "Server"@) ==> h2 =~= seq![h2[0]] + h1 && hdr_is(h2[0], "Server"@));
        }
//@before 1 let (mut reader, data_length)
        // ---- state after the upgrade step
        let ghost h3 = __self.headers@;
        proof {   // [C04,C19]
            assert(upgrade is None ==> h3 == h2);
            assert(upgrade is Some ==> h3 =~= seq![h3[0], h3[1]] + h2 && hdr_is(h3[0], "Connection"@) && h3[0].value@ == "upgrade"@
                && hdr_is(h3[1], "Upgrade"@) && h3[1].value@ == upgrade->Some_0@ && transfer_encoding is None);
        }
//@after? 1 self.reader.read_to_end
                    proof { assert(buf@ =~= body0); }   // [C04]
//@before? 1 Ok(())
        proof {   // [C04]
            // a message announced as chunked is self-delimiting only if the chunked coding (at least its terminating chunk)
            // is actually produced -- also for an empty body; an identity body of n >= 1 bytes is copied
            // (a body DECLARED empty need not be polled: the property presumes declared lengths to be correct)
            assert(transfer_encoding == Some(TransferEncoding::Chunked) && !head_only && !no_body_status(status0) ==> encoder_made());
            assert(transfer_encoding == Some(TransferEncoding::Chunked) && !head_only && !no_body_status(status0) && data_length != Some(0usize) ==> copied_once());
            assert(transfer_encoding == Some(TransferEncoding::Identity) && !head_only && !no_body_status(status0) && data_length is Some && data_length->Some_0 >= 1 ==> copied_once());
        }
//@before? 1 Encoder :: new
                    // O-NO-BODY-NO-ENCODER (C04): the chunk encoder writes the terminating chunk when it is dropped, whatever was
                    // written to it: it may only come into being when the response is allowed a body
                    proof { assert(!head_only && !no_body_status(status0) && upgrade is None); }   // [C04]
//@before? 1 io::copy
                    // ... and what is copied is exactly the application's body, through the chunk encoder
                    proof { assert(!head_only && !no_body_status(status0) && upgrade is None); assert(dyn_stream(&reader) == body0); }   // [C04]
//@before? 2 io::copy
                        // ... or verbatim, after a Content-Length equal to its length was announced
                        proof { assert(!head_only && !no_body_status(status0) && upgrade is None); assert(dyn_stream(&reader) == body0); }   // [C04]
//@before 1 write_message_header(
        proof {   // [C04,C05,C19]
            let hs = __self.headers@;
            // ---- state after the framing-header step: at most one header appended
            assert(transfer_encoding is None ==> hs == h3);
            assert(transfer_encoding is Some ==> hs =~= h3.push(hs.last()));
            let tail = if transfer_encoding is Some { seq![hs.last()] } else { Seq::<Header>::empty() };
            let d_part = if has_any(h0, "Date"@) { Seq::<Header>::empty() } else { seq![h1[0]] };
            let s_part = if has_any(h0, "Server"@) { Seq::<Header>::empty() } else { seq![h2[0]] };
            let u_part = if upgrade is Some { seq![h3[0], h3[1]] } else { Seq::<Header>::empty() };
            let pre = u_part + s_part + d_part;
            // O-DATE-SERVER + order (C19): the application's headers are handed to the serialiser once each, in the order
            // given, between the automatic ones and the single framing header
            assert(hs =~= pre + h0 + tail);
            assert(pre_ok(pre, h0, match upgrade { Some(u) => Some(u@), None => None }));
            // O-FRAMING-HDR (C04, C05 second sentence)
            assert(tail_ok(tail, transfer_encoding, data_length));
            // the declared length is the application's declaration, or the measured length of the whole body
            assert(transfer_encoding == Some(TransferEncoding::Identity) ==> data_length is Some
                && (declared0 is Some ==> data_length == declared0) && (declared0 is None ==> data_length->Some_0 == body0.len()));
        }
//@endfn
//@endimpl

pub assume_specification[ std::io::empty ]() -> (r: std::io::Empty);
// ---- the convenience constructors declare exactly the byte length of the data they were given (C19)
// String::len is the length in BYTES (UTF-8), which is what into_bytes yields (std documentation)
pub uninterp spec fn string_bytes(s: String) -> Seq<u8>;
pub assume_specification[ String::len ](s: &String) -> (r: usize) ensures r == string_bytes(*s).len();
pub assume_specification[ String::into_bytes ](s: String) -> (r: Vec<u8>) ensures r@ == string_bytes(s);

//@impl src/response.rs "Response<Cursor<Vec<u8>>>"
//@fn from_data ret r props C19
//@spec
    ensures exists|v: Vec<u8>| #[trigger] call_ensures(D::into, (data,), v) && r.declared() == Some(v@.len() as usize) && cursor_rest(&r.body_reader()) == v@,
//@endfn
//@fn from_string ret r props C19
//@spec
    // declared length = number of BYTES of the string (multi-byte UTF-8 included) = length of the body stream
    ensures exists|v: String| #[trigger] call_ensures(S::into, (data,), v) && r.declared() == Some(string_bytes(v).len() as usize) && cursor_rest(&r.body_reader()) == string_bytes(v),
//@entry
        broadcast use axiom_slice_as_bytes, axiom_slice_as_chars;
        proof {
            reveal_strlit("Content-Type");
            reveal_strlit("Content-Length");
            // the two names differ (12 vs 14 characters), so the initial header does not touch the declared length
            assert(lower("Content-Type"@).len() == 12 && lower("Content-Length"@).len() == 14);
            assert(!eq_ic("Content-Length"@, "Content-Type"@));
        }
//@endfn
//@endimpl
//@impl src/response.rs "Response<io::Empty>"
//@fn empty ret r props C19,C06
//@spec
    ensures r.declared() == Some(0usize), call_ensures(S::into, (status_code,), r.code()),
//@endfn
//@fn new_empty ret r props C19,C10
//@spec
    ensures r.declared() == Some(0usize), r.status() == status_code.0,
//@entry
        broadcast use axiom_into_self;
//@endfn
//@endimpl

// ---- code this unit's claims rely on that is outside the verifier: pinned to the reference tree (rule ix of ./check) ----
//@watch src/response.rs "Response<R>" with_header
//@watch src/response.rs "Response<File>" from_file
//@watch src/response.rs "Response<R>" boxed
} // verus!
fn main() {}
