// UNIT U-PARSE: the leaf parsers that are within Verus' reach  (DESIGN 5 / C10, C16, C02-ish)
//   client.rs::parse_http_version, common.rs::HeaderField::{from_str, equiv, as_str}, Method::from_str
#![feature(pattern)]
#![allow(unused_imports, dead_code, unused_variables, unused_mut)]
#![verifier::allow(undeclared_external_trait)]
use vstd::prelude::*;
use std::str::FromStr;
use std::io::Error as IoError;
use std::fmt;

verus! {
//@include prelude/io_error.rs
//@include prelude/str.rs
//@include contracts/common_types.inc
//@include prelude/deps_ascii_str.rs
//@include prelude/option.rs
//@include prelude/trim.rs
//@include prelude/split.rs

//@item src/client.rs enum ReadError

//@include contracts/parse_spec.inc

//@fn src/client.rs parse_http_version ret r props C10,C02
//@spec
    ensures
        // anything else is a malformed request line
        match r {
            Ok(v) => version_of(v, version@),
            Err(e) => e is WrongRequestLine,
        },
//@endfn

impl HeaderField {
    pub closed spec fn name(&self) -> Seq<char> { self.0@ }
}
//@impl src/common.rs "HeaderField"
//@fn as_str ret r props C16
//@spec
    ensures r@ == self.name(),
//@endfn
//@fn from_bytes ret r props C04,C19
//@spec
    ensures match r {
        Ok(f) => all_ascii(bytes_of(bytes)) && f.name() == chars_of(bytes),
        Err(_) => !all_ascii(bytes_of(bytes)),
    },
//@endfn
//@fn equiv ret r props C03,C10,C12,C16,C18
//@spec
    // O-EQUIV: header names are compared ASCII case-insensitively (this is the contract assumed by U-NEWREQ / U-CONN)
    ensures r == eq_ic(other@, self.name()),
//@endfn
//@endimpl

//@impl src/common.rs "FromStr for HeaderField"
//@fn from_str ret r props C16
//@spec
    ensures
        // O-NAME-WS (C16, RUSTSEC-2020-0031): a field name containing any whitespace is refused; an accepted name is
        // the input, byte for byte
        match r {
            Ok(f) => !has_whitespace(s@) && f.name() == s@,
            Err(_) => has_whitespace(s@) || !str_is_ascii(s@),
        },
//@entry
        broadcast use axiom_contains_fn, axiom_bytes_of_str, axiom_chars_of_str;
//@closure 1 |__u: FromAsciiError<&str>| -> (u: ()) ensures true
//@endfn
//@endimpl

//@impl src/common.rs "Method"
//@fn as_str ret r props C10
//@spec
    // (part of the common API that every unit may call by contract, contracts/common_api_assumed.inc)
    ensures *self is Get ==> r@ == "GET"@, *self is Head ==> r@ == "HEAD"@, *self is Post ==> r@ == "POST"@,
//@endfn
//@endimpl

//@impl src/common.rs "FromStr for Method"
//@fn from_str ret r props C02,C10
//@spec
    ensures
        // ... and only a non-ASCII token is refused
        match r {
            Ok(m) => method_of(m, s@),
            Err(_) => !str_is_ascii(s@),
        },
//@entry
        broadcast use axiom_bytes_of_str, axiom_chars_of_str;
//@closure 1 |__u: FromAsciiError<&str>| -> (u: ()) ensures true
//@endfn
//@endimpl

//@fn src/client.rs parse_request_line ret r props C02,C10
//@spec
    ensures
        match r {
            // O-REQLINE (C02): method token, target and version are the first three space-separated parts of the line, as sent
            // (whatever follows a third space is ignored): the method by the (case-sensitive) token table, the target byte
            // for byte, the version by the version table
            Ok(t) => {
                let p0 = head_of(line@, ' ');
                let t0 = tail_of(line@, ' ');
                &&& t0 is Some && tail_of(t0->Some_0, ' ') is Some
                &&& method_of(t.0, p0)
                &&& t.1@ == head_of(t0->Some_0, ' ')
                &&& version_of(t.2, head_of(tail_of(t0->Some_0, ' ')->Some_0, ' '))
            },
            // a line is refused as malformed; (that it is refused ONLY for having fewer than three parts, a non-ASCII method
            // token or a version outside the table cannot be stated: string-literal patterns give this Verus no negative
            // information -- the positive half of the version table is K-VER)
            Err(e) => e is WrongRequestLine,
        },
//@closure ~w.parse()~ |w: &str| -> (o: Option<Method>) ensures match o { Some(m) => method_of(m, w@), None => !str_is_ascii(w@) }
//@closure ~parse_http_version(w)~ |w: &str| -> (o: Option<HTTPVersion>) ensures match o { Some(v) => version_of(v, w@), None => true }
//@closure ~Some((method, path?, version?))~ |method: Method| -> (o: Option<(Method, String, HTTPVersion)>) ensures o == (if path is Some && version is Some { Some((method, path->Some_0, version->Some_0)) } else { None })
//@endfn

//@impl src/common.rs "Header"
//@fn from_bytes ret r props C04,C19
//@spec
    // (the contract U-RESP uses for the headers raw_print builds: succeeds exactly on ASCII input and keeps the text)
    ensures
        (r is Ok) == (all_ascii(bytes_of(header)) && all_ascii(bytes_of(value))),
        r is Ok ==> r->Ok_0.field.name() == chars_of(header) && r->Ok_0.value@ == chars_of(value),
//@endfn
//@endimpl

//@impl src/common.rs "FromStr for Header"
//@fn from_str ret r props C02,C16
//@spec
    ensures
        match r {
            // O-HDR-SPLIT (C02, C16): the name is the text before the FIRST colon, taken as it is -- it may not contain
            // whitespace anywhere (so neither ` Name: v`, `Na me: v` nor `Name : v` is accepted) --, the value is the rest
            // of the line without its surrounding whitespace: nothing else is removed, decoded or merged
            Ok(h) => tail_of(input@, ':') is Some && !has_whitespace(head_of(input@, ':'))
                && h.field.name() == head_of(input@, ':') && is_trimmed_of(h.value@, tail_of(input@, ':')->Some_0),
            // ... and a line is refused only for one of these reasons
            Err(_) => tail_of(input@, ':') is None || !str_is_ascii(input@) || has_whitespace(head_of(input@, ':')),
        },
//@entry
        broadcast use axiom_bytes_of_str, axiom_chars_of_str, lemma_trim_ascii;
        proof { lemma_parts_ascii(input@, ':'); }
//@closure ~f.parse()~ |f: &str| -> (o: Option<HeaderField>) ensures match o { Some(x) => !has_whitespace(f@) && x.name() == f@, None => has_whitespace(f@) || !str_is_ascii(f@) }
//@closure ~v.trim()~ |v: &str| -> (o: Option<AsciiString>) ensures match o { Some(x) => is_trimmed_of(x@, v@), None => !str_is_ascii(v@) }
//@endfn
//@endimpl

} // verus!
fn main() {}
