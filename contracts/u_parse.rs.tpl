// UNIT U-PARSE: the leaf parsers that are within Verus' reach  (DESIGN 5 / C10, C16, C02-ish)
//   client.rs::parse_http_version, common.rs::HeaderField::{from_str, equiv, as_str}, Method::from_str
#![feature(pattern)]
#![allow(unused_imports, dead_code, unused_variables, unused_mut)]
#![verifier::allow(undeclared_external_trait)]
use vstd::prelude::*;
use std::str::FromStr;
use std::io::Error as IoError;
use std::fmt;

verus! {
//@include prelude/io_error.rs
//@include prelude/str.rs
//@include contracts/common_types.inc
//@include prelude/deps_ascii_str.rs

//@item src/client.rs enum ReadError

//@fn src/client.rs parse_http_version ret r props C10,C02
//@spec
    ensures
        // O-VERSION-TABLE (C10): exactly the five recognised tokens (case-sensitive) are accepted; anything else is a malformed request line
        match r {
            Ok(v) => (version@ == "HTTP/0.9"@ && v == HTTPVersion(0, 9)) || (version@ == "HTTP/1.0"@ && v == HTTPVersion(1, 0))
                || (version@ == "HTTP/1.1"@ && v == HTTPVersion(1, 1)) || (version@ == "HTTP/2.0"@ && v == HTTPVersion(2, 0))
                || (version@ == "HTTP/3.0"@ && v == HTTPVersion(3, 0)),
            Err(e) => e is WrongRequestLine,
        },
//@endfn

impl HeaderField {
    pub closed spec fn name(&self) -> Seq<char> { self.0@ }
}
//@impl src/common.rs "HeaderField"
//@fn as_str ret r props C16
//@spec
    ensures r@ == self.name(),
//@endfn
//@fn equiv ret r props C03,C10,C12,C16,C18
//@spec
    // O-EQUIV: header names are compared ASCII case-insensitively (this is the contract assumed by U-NEWREQ / U-CONN)
    ensures r == eq_ic(other@, self.name()),
//@endfn
//@endimpl

//@impl src/common.rs "FromStr for HeaderField"
//@fn from_str ret r props C16
//@spec
    ensures
        // O-NAME-WS (C16, RUSTSEC-2020-0031): a field name containing any whitespace is refused; an accepted name is
        // the input, byte for byte
        match r {
            Ok(f) => !has_whitespace(s@) && f.name() == s@,
            Err(_) => has_whitespace(s@) || !str_is_ascii(s@),
        },
//@entry
        broadcast use axiom_contains_fn, axiom_bytes_of_str, axiom_chars_of_str;
//@closure 1 |__u: FromAsciiError<&str>| -> (u: ()) ensures true
//@endfn
//@endimpl

//@impl src/common.rs "Method"
//@fn as_str ret r props C10
//@spec
    // (part of the common API that every unit may call by contract, contracts/common_api_assumed.inc)
    ensures *self is Get ==> r@ == "GET"@, *self is Head ==> r@ == "HEAD"@, *self is Post ==> r@ == "POST"@,
//@endfn
//@endimpl

//@impl src/common.rs "FromStr for Method"
//@fn from_str ret r props C02,C10
//@spec
    ensures
        // O-METHOD: the nine standard tokens (case-sensitive) map to their variants, any other ASCII token is kept
        // verbatim as an extension method, and only a non-ASCII token is refused
        match r {
            Ok(m) => match m {
                Method::Get => s@ == "GET"@, Method::Head => s@ == "HEAD"@, Method::Post => s@ == "POST"@, Method::Put => s@ == "PUT"@,
                Method::Delete => s@ == "DELETE"@, Method::Connect => s@ == "CONNECT"@, Method::Options => s@ == "OPTIONS"@,
                Method::Trace => s@ == "TRACE"@, Method::Patch => s@ == "PATCH"@,
                Method::NonStandard(a) => a@ == s@,
            },
            Err(_) => !str_is_ascii(s@),
        },
//@entry
        broadcast use axiom_bytes_of_str, axiom_chars_of_str;
//@closure 1 |__u: FromAsciiError<&str>| -> (u: ()) ensures true
//@endfn
//@endimpl

} // verus!
fn main() {}
