// UNIT U-NEWREQ: request.rs  new_request  (DESIGN 5 / C03, C09, C11, C14, C16, C18)
#![feature(pattern)]
#![allow(unused_imports, dead_code, unused_variables, unused_mut)]
use vstd::prelude::*;
use std::io::Error as IoError;
use std::io::Result as IoResult;
use std::io::{self, Cursor, ErrorKind, Read, Write};
use std::str::FromStr;
use std::net::SocketAddr;
use std::sync::mpsc::{Sender, Receiver};
use std::fmt;

verus! {
//@include prelude/io.rs
//@include prelude/chan.rs
//@include prelude/alloc.rs
//@include prelude/iter.rs
//@include prelude/str.rs
//@include prelude/option.rs
//@include prelude/try.rs

#[verifier::external_type_specification]
#[verifier::external_body]
pub struct ExEmpty(std::io::Empty);
#[verifier::external_type_specification]
#[verifier::external_body]
pub struct ExSocketAddr(std::net::SocketAddr);

#[verifier::external_trait_specification]
pub trait ExWrite {
    type ExternalTraitSpecificationFor: std::io::Write;
    fn write(&mut self, buf: &[u8]) -> (r: std::io::Result<usize>);
    fn flush(&mut self) -> (r: std::io::Result<()>);
}

// R19: std readers used as bodies, as local opaque types
#[verifier::external_body]
pub struct VerifEmpty { e: io::Empty }
#[verifier::external_body]
pub struct VerifCursor { c: Cursor<Vec<u8>> }
pub uninterp spec fn cursor_rest(c: &VerifCursor) -> Seq<u8>;
impl ReadSpecImpl for VerifEmpty {
    open spec fn stream(&self) -> Seq<u8> { Seq::empty() }
    open spec fn failed(&self) -> bool { false }
    open spec fn release(&self) -> Seq<u8> { Seq::empty() }   // owns no source
    open spec fn drained(&self) -> Seq<u8> { Seq::empty() }
    open spec fn owns_source(&self) -> bool { false }
}
impl ReadSpecImpl for VerifCursor {
    open spec fn stream(&self) -> Seq<u8> { cursor_rest(self) }
    open spec fn failed(&self) -> bool { false }
    open spec fn release(&self) -> Seq<u8> { Seq::empty() }   // owns no source
    open spec fn drained(&self) -> Seq<u8> { Seq::empty() }
    open spec fn owns_source(&self) -> bool { false }
}
#[verifier::external] impl Read for VerifEmpty { fn read(&mut self, buf: &mut [u8]) -> io::Result<usize> { self.e.read(buf) } }
#[verifier::external] impl Read for VerifCursor { fn read(&mut self, buf: &mut [u8]) -> io::Result<usize> { self.c.read(buf) } }
#[verifier::external_body]
pub fn verif_empty() -> (r: VerifEmpty) { VerifEmpty { e: io::empty() } }
#[verifier::external_body]
pub fn verif_cursor(v: Vec<u8>) -> (r: VerifCursor)
    ensures cursor_rest(&r) == v@     // a fresh Cursor reads its whole buffer from position 0
{ VerifCursor { c: Cursor::new(v) } }

#[verifier::external_body]
pub fn verif_io_error(kind: ErrorKind, msg: &str) -> (r: IoError)
    ensures io_error_kind(&r) == kind
{ IoError::new(kind, msg) }

//@include prelude/deps_chunked.rs
//@include contracts/common_types.inc

//@include contracts/common_api_assumed.inc

#[verifier::reject_recursive_types(R)]
//@item src/util/equal_reader.rs struct EqualReader
#[verifier::reject_recursive_types(R)]
//@item src/util/fused_reader.rs struct FusedReader
//@include contracts/readers_spec.inc
//@impl src/util/equal_reader.rs "EqualReader<R>"
//@fn new ret r
//@assume
//@spec
    ensures r.0.remaining() == size, *r.0.inner() == reader,     // proved in U-READERS
//@endfn
//@endimpl
//@impl src/util/fused_reader.rs "FusedReader<R>"
//@fn new ret r
//@assume
//@spec
    ensures r.inner() == Some(inner),                            // proved in U-READERS
//@endfn
//@endimpl
#[verifier::external] impl<R: Read> Read for EqualReader<R> { fn read(&mut self, buf: &mut [u8]) -> io::Result<usize> { unimplemented!() } }
#[verifier::external] impl<R: Read> Read for FusedReader<R> { fn read(&mut self, buf: &mut [u8]) -> io::Result<usize> { unimplemented!() } }

// R3 wrappers: boxing preserves the ghost view (Rust dynamic dispatch is trusted)
pub uninterp spec fn dyn_stream(b: &Box<dyn Read>) -> Seq<u8>;
pub uninterp spec fn dyn_release(b: &Box<dyn Read>) -> Seq<u8>;
pub uninterp spec fn dyn_owns_source(b: &Box<dyn Read>) -> bool;
#[verifier::external_body]
pub fn verif_box_dyn_Read<R: Read + 'static>(x: Box<R>) -> (r: Box<dyn Read>)
    ensures dyn_stream(&r) == (*x).stream(), dyn_release(&r) == (*x).release(), dyn_owns_source(&r) == (*x).owns_source()
{ x }
/// identity of a writer value (U-CONN instantiates it with the finish channel of a SequentialWriter)
pub uninterp spec fn wid<W>(w: W) -> int;
pub uninterp spec fn dyn_wid(b: &Box<dyn Write>) -> int;
#[verifier::external_body]
pub fn verif_box_dyn_Write<W: Write + 'static>(x: Box<W>) -> (r: Box<dyn Write>)
    ensures dyn_wid(&r) == wid(*x)
{ x }

//@item src/request.rs struct Request
//@item src/request.rs enum RequestCreationError
//@impl src/request.rs "From<IoError> for RequestCreationError"
//@fn from ret r props C15
//@spec
    ensures r == RequestCreationError::CreationIoError(err),
//@endfn
//@endimpl
impl vstd::std_specs::convert::FromSpecImpl<IoError> for RequestCreationError {
    open spec fn obeys_from_spec() -> bool { true }
    open spec fn from_spec(v: IoError) -> RequestCreationError { RequestCreationError::CreationIoError(v) }
}

// ---- the property's framing decision table, as a spec function of the header list ----
//@include contracts/header_lookup.inc
pub open spec fn f_te(hs: Seq<Header>) -> bool { has_hdr(hs, "Transfer-Encoding"@) }
/// declared length: Transfer-Encoding takes precedence over any Content-Length; the value must be
/// "a plain decimal number the server can represent" (property C16) -- anything else is f_cl_bad
pub open spec fn f_cl_bad(hs: Seq<Header>) -> bool {
    !f_te(hs) && has_hdr(hs, "Content-Length"@) && plain_decimal(first_value(hs, "Content-Length"@)) is None
}
pub open spec fn f_cl(hs: Seq<Header>) -> Option<usize> {
    if f_te(hs) || !has_hdr(hs, "Content-Length"@) { None } else { plain_decimal(first_value(hs, "Content-Length"@)) }
}
pub open spec fn f_expect_ok(hs: Seq<Header>) -> bool {
    !has_hdr(hs, "Expect"@) || eq_ic(first_value(hs, "Expect"@), "100-continue"@)
}
pub open spec fn f_continue(hs: Seq<Header>) -> bool { has_hdr(hs, "Expect"@) && eq_ic(first_value(hs, "Expect"@), "100-continue"@) }
/// the body the request must deliver, as a function of the headers and of the bytes the source will yield
pub open spec fn f_body(hs: Seq<Header>, src: Seq<u8>) -> Seq<u8> {
    if f_upgrade(hs) { src }                                     // protocol upgrade: all remaining bytes verbatim
    else if f_cl(hs) is Some {
        let n = f_cl(hs)->Some_0 as int;
        if src.len() >= n { src.take(n) } else { src }           // exactly the next N bytes (all there is if the client vanishes early)
    }
    else if f_te(hs) { dechunk(src) }                             // concatenated chunk payloads
    else { Seq::empty() }                                         // no framing: empty body
}
/// C09: how many bytes of the source the body occupies (where the next request starts)
pub open spec fn f_body_end(hs: Seq<Header>, src: Seq<u8>) -> int {
    if f_cl(hs) is Some { if src.len() >= f_cl(hs)->Some_0 { f_cl(hs)->Some_0 as int } else { src.len() as int } }
    else if f_te(hs) { chunked_len(src) as int }
    else { 0 }
}
/// small bodies are pre-read (so the source is released before the request is even delivered) -- never for 100-continue
pub open spec fn f_buffered(hs: Seq<Header>) -> bool {
    !f_upgrade(hs) && f_cl(hs) is Some && 0 < f_cl(hs)->Some_0 <= 1024 && !f_continue(hs)
}

impl Request {
    pub closed spec fn body(&self) -> Seq<u8> { dyn_stream(&self.data_reader->Some_0) }
    pub closed spec fn body_release(&self) -> Seq<u8> { dyn_release(&self.data_reader->Some_0) }
    pub closed spec fn keeps_source(&self) -> bool { dyn_owns_source(&self.data_reader->Some_0) }
    pub closed spec fn has_body_reader(&self) -> bool { self.data_reader is Some }
    pub closed spec fn answered(&self) -> bool { self.response_writer is None }
    pub closed spec fn writer_id(&self) -> int { dyn_wid(&self.response_writer->Some_0) }
    pub closed spec fn declared_len(&self) -> Option<usize> { self.body_length }
    pub closed spec fn pending_continue(&self) -> bool { self.must_send_continue }
    pub closed spec fn hdrs(&self) -> Seq<Header> { self.headers@ }
    pub closed spec fn head_is(&self, secure: bool, method: Method, path: String, version: HTTPVersion, remote_addr: Option<SocketAddr>) -> bool {
        self.secure == secure && self.method == method && self.path == path && self.http_version == version && self.remote_addr == remote_addr
            && self.notify_when_responded is None
    }
}

#[verifier::rlimit(60)]
//@fn src/request.rs new_request ret res props C01,C02,C03,C09,C11,C13,C14,C15,C16,C18
//@spec
    ensures
        // C10/C18: an Expect value other than 100-continue (any letter case) is refused, nothing else is
        res is Err && res->Err_0 is ExpectationFailed ==> !f_expect_ok(headers@),   // [C10,C18]
        res is Ok ==> f_expect_ok(headers@),   // [C10,C18]
        // O-CL-STRICT (C16): a Content-Length that is not a plain decimal number is refused, never interpreted or ignored
        res is Err && res->Err_0 is InvalidContentLength ==> f_cl_bad(headers@),   // [C16]
        res is Ok ==> !f_cl_bad(headers@),   // [C16]
        // C15: the only I/O failure is a buffered small body that the source cannot supply in full ...
        res is Err && res->Err_0 is CreationIoError ==> f_expect_ok(headers@) && !f_cl_bad(headers@) && f_buffered(headers@),   // [C15]
        // ... and a request whose buffered small body was incomplete is never delivered
        res is Ok && f_buffered(headers@) ==> source_data.stream().len() >= f_cl(headers@)->Some_0,   // [C15]
        // O-FRAMING (C03): the readable body is exactly what the framing designates ...
        res is Ok ==> res->Ok_0.has_body_reader() && res->Ok_0.body() == f_body(headers@, source_data.stream()),   // [C03,C13]
        // ... the declared length is reported exactly when Content-Length decided
        res is Ok ==> res->Ok_0.declared_len() == f_cl(headers@),   // [C03]
        // O-REL-1 (C09): a reader that keeps the source hands it on exactly at the end of the body when it is
        // dropped, however much of the body was read (with O-REL-2 / O-DRAIN / O-FUSED-DRAIN of U-READERS)
        res is Ok && !f_upgrade(headers@) && !f_buffered(headers@) && ((f_cl(headers@) is Some && f_cl(headers@)->Some_0 > 0 && source_data.stream().len() >= f_cl(headers@)->Some_0) || (f_cl(headers@) is None && f_te(headers@)))
                ==> res->Ok_0.body_release() == source_data.stream().skip(f_body_end(headers@, source_data.stream())),   // [C09]
        // O-READAHEAD (C11): a request with no body or a small one (not awaiting 100-continue) does not keep the source
        res is Ok && !f_upgrade(headers@) && (f_buffered(headers@) || f_cl(headers@) == Some(0usize) || (f_cl(headers@) is None && !f_te(headers@))) ==> !res->Ok_0.keeps_source(),   // [C11]
        // C18: the interim-response flag
        res is Ok ==> res->Ok_0.pending_continue() == f_continue(headers@),   // [C18]
        // C06: the slot starts occupied ... C01: by exactly the writer that was passed in (this is the clause
        // `rq.writer_chan() == writer.wchan()` that U-CONN uses by contract)
        res is Ok ==> !res->Ok_0.answered() && res->Ok_0.writer_id() == wid(writer),   // [C06,C01]
        // frame: everything else is handed over untouched
        res is Ok ==> res->Ok_0.hdrs() == headers@ && res->Ok_0.head_is(secure, method, path, version, remote_addr),   // [C02,C03,C10,C12]
//@after 1 let transfer_encoding
    proof {   // [C03,C09,C11,C13]
        let name = "Transfer-Encoding"@;
        if transfer_encoding is Some {
            let i = choose|i: int| 0 <= i < headers@.len() && hdr_is(#[trigger] headers@[i], name) && headers@[i].value == transfer_encoding->Some_0
                && forall|j: int| 0 <= j < i ==> !hdr_is(#[trigger] headers@[j], name);
            lemma_first(headers@, name, i);
        } else {
            assert(forall|j: int| 0 <= j < headers@.len() ==> !hdr_is(#[trigger] headers@[j], name));
            lemma_none(headers@, name);
        }
        assert(f_te(headers@) == (transfer_encoding is Some));
    }
//@before? 1 return Err(RequestCreationError::InvalidContentLength)
                proof {   // [C16]
                    // sign-prefixed value: not a plain decimal number
                    let name = "Content-Length"@;
                    let i = choose|i: int| 0 <= i < headers@.len() && hdr_is(#[trigger] headers@[i], name) && headers@[i].value@ == v@
                        && forall|j: int| 0 <= j < i ==> !hdr_is(#[trigger] headers@[j], name);
                    lemma_first(headers@, name, i);
                    assert(!is_digit('+'));
                }
//@before? 2 return Err(RequestCreationError::InvalidContentLength)
                proof {   // [C16]
                    // anything usize::from_str refuses (empty, non-digit, mixed, list, overflowing)
                    let name = "Content-Length"@;
                    let i = choose|i: int| 0 <= i < headers@.len() && hdr_is(#[trigger] headers@[i], name) && headers@[i].value@ == v@
                        && forall|j: int| 0 <= j < i ==> !hdr_is(#[trigger] headers@[j], name);
                    lemma_first(headers@, name, i);
                }
//@after 1 let content_length
    proof {   // [C03,C09,C11,C13,C14,C16]
        let name = "Content-Length"@;
        if transfer_encoding is None {
            if exists|i: int| 0 <= i < headers@.len() && hdr_is(#[trigger] headers@[i], name) {
                let i = choose|i: int| 0 <= i < headers@.len() && hdr_is(#[trigger] headers@[i], name)
                    && content_length == parse_usize(headers@[i].value@) && content_length is Some
                    && !(headers@[i].value@.len() > 0 && headers@[i].value@[0] == '+')
                    && forall|j: int| 0 <= j < i ==> !hdr_is(#[trigger] headers@[j], name);
                lemma_first(headers@, name, i);
            } else {
                assert(forall|j: int| 0 <= j < headers@.len() ==> !hdr_is(#[trigger] headers@[j], name));
                lemma_none(headers@, name);
            }
        }
        assert(content_length == f_cl(headers@) && !f_cl_bad(headers@));
    }
//@before 1 return Err ( RequestCreationError :: ExpectationFailed )
                proof {   // [C10,C18]
                    let name = "Expect"@;
                    let i = choose|i: int| 0 <= i < headers@.len() && hdr_is(#[trigger] headers@[i], name) && !eq_ic(headers@[i].value@, "100-continue"@)
                        && forall|j: int| 0 <= j < i ==> !hdr_is(#[trigger] headers@[j], name);
                    lemma_first(headers@, name, i);
                }
//@after 1 let expects_continue
    proof {   // [C10,C18,C11]
        let name = "Expect"@;
        if exists|i: int| 0 <= i < headers@.len() && hdr_is(#[trigger] headers@[i], name) {
            let i = choose|i: int| 0 <= i < headers@.len() && hdr_is(#[trigger] headers@[i], name) && eq_ic(headers@[i].value@, "100-continue"@) && expects_continue
                && forall|j: int| 0 <= j < i ==> !hdr_is(#[trigger] headers@[j], name);
            lemma_first(headers@, name, i);
        } else {
            assert(forall|j: int| 0 <= j < headers@.len() ==> !hdr_is(#[trigger] headers@[j], name));
            lemma_none(headers@, name);
        }
        assert(f_expect_ok(headers@) && expects_continue == f_continue(headers@));
    }
//@after 1 let connection_upgrade
    proof {   // [C03,C09,C11]
        let name = "Connection"@;
        if exists|i: int| 0 <= i < headers@.len() && hdr_is(#[trigger] headers@[i], name) {
            let i = choose|i: int| 0 <= i < headers@.len() && hdr_is(#[trigger] headers@[i], name)
                && connection_upgrade == seq_contains(lower(headers@[i].value@), "upgrade"@)
                && forall|j: int| 0 <= j < i ==> !hdr_is(#[trigger] headers@[j], name);
            lemma_first(headers@, name, i);
        } else {
            assert(forall|j: int| 0 <= j < headers@.len() ==> !hdr_is(#[trigger] headers@[j], name));
            lemma_none(headers@, name);
        }
        assert(connection_upgrade == f_upgrade(headers@));
    }
//@after 1 let reader
    proof {   // [C03,C13]
        assert(src0.take(0) =~= Seq::<u8>::empty());
        assert(dyn_stream(&reader) =~= f_body(headers@, src0));
    }
//@before? 1 Box::new(io::empty())
            // C09/C11: no body: the source is released untouched when new_request returns
            proof { assert(source_data.stream() == src0); }
//@before? 1 Box::new(Cursor::new(buffer))
            // C09/C11: a buffered body has been consumed exactly, the source is released right after it
            proof { assert(source_data.stream() == src0.skip(content_length as int)); }
//@before? 2 Box::new(io::empty())
        proof { assert(source_data.stream() == src0); }
//@closure ~equiv("Transfer-Encoding")~ |h: &&Header| -> (b: bool) ensures b == hdr_is(**h, "Transfer-Encoding"@)
//@closure ~h.value.clone()~ |h: &Header| -> (o: AsciiString) ensures o == h.value
//@closure ~equiv("Content-Length")~ |h: &&Header| -> (b: bool) ensures b == hdr_is(**h, "Content-Length"@)
//@closure ~h.value.as_str()~ after ~"Content-Length"~ |h: &Header| -> (o: &str) ensures o@ == h.value@
//@closure ~equiv("Expect")~ |h: &&Header| -> (b: bool) ensures b == hdr_is(**h, "Expect"@)
//@closure ~h.value.as_str()~ after ~"Expect"~ |h: &Header| -> (o: &str) ensures o@ == h.value@
//@closure ~equiv("Connection")~ |h: &&Header| -> (b: bool) ensures b == hdr_is(**h, "Connection"@)
//@closure ~h.value.as_str()~ after ~"Connection"~ |h: &Header| -> (o: &str) ensures o@ == h.value@
//@entry
    let ghost src0 = source_data.stream();
    broadcast use axiom_find_post, axiom_contains_str, lemma_as_ref_index, lemma_as_ref_index_fwd, axiom_spec_from, axiom_starts_with_char;
//@loop 1
                invariant
                    offset <= content_length, buffer@.len() == content_length, content_length <= 1024,
                    offset <= src0.len(),
                    f_expect_ok(headers@), f_buffered(headers@),
                    // O-SMALL: the buffer holds exactly the first `offset` bytes of the source, whatever the segmentation
                    buffer@.subrange(0, offset as int) == src0.subrange(0, offset as int),
                    source_data.stream() == src0.skip(offset as int),
                decreases content_length - offset,
//@loopentry 1
                broadcast use axiom_spec_from;
                let ghost buf0 = buffer@;
                let ghost off0 = offset as int;
//@before? 1 return Err(RequestCreationError::CreationIoError(err))
                    // C13/C15: the buffered read gives up only when the client's byte stream really ends inside the body --
                    // never because of how the bytes were segmented (a short read is not an end of stream)
                    proof { assert(src0.len() < content_length); }   // [C13,C15]
//@before? 1 offset += read
                proof {
                    // Seq extensionality hints: prefix kept by the disjoint sub-slice, new bytes = next bytes of the stream
                    assert(buffer@.subrange(0, off0) =~= buf0.subrange(0, off0));
                    assert(buffer@.subrange(off0, off0 + read) =~= buffer@.subrange(off0, buffer@.len() as int).subrange(0, read as int));
                    assert(src0.skip(off0).subrange(0, read as int) =~= src0.subrange(off0, off0 + read));
                    assert(buffer@.subrange(0, off0 + read) =~= buffer@.subrange(0, off0) + buffer@.subrange(off0, off0 + read));
                    assert(src0.subrange(0, off0 + read) =~= src0.subrange(0, off0) + src0.subrange(off0, off0 + read));
                    assert(src0.skip(off0).skip(read as int) =~= src0.skip(off0 + read));
                }
//@endfn

// ---- code this unit's claims rely on that is outside the verifier: pinned to the reference tree (rule ix of ./check) ----
//@watch src/request.rs "impl Request" body_length
} // verus!
fn main() {}
