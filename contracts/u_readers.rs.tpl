// UNIT U-READERS: util/equal_reader.rs, util/fused_reader.rs  (DESIGN 4)
#![allow(unused_imports, dead_code, unused_variables, unused_mut, unused_parens)]
use vstd::prelude::*;
use std::io::Read;
use std::io::Result as IoResult;
use std::sync::mpsc::channel;
use std::sync::mpsc::{Receiver, Sender};
use std::io::IoSliceMut;

verus! {
//@include prelude/io.rs
//@include prelude/chan.rs
//@include prelude/alloc.rs

pub assume_specification<T>[ std::sync::mpsc::channel::<T> ]() -> (r: (Sender<T>, Receiver<T>))
    ensures tx_chan(&r.0) == rx_chan(&r.1);
// effect witness: only `send` can establish it (DESIGN 3.4)
pub assume_specification<T>[ Sender::<T>::send ](s: &Sender<T>, t: T) -> (r: Result<(), std::sync::mpsc::SendError<T>>);

// ------------------------------------------------------------------ EqualReader
//@item src/util/equal_reader.rs struct EqualReader

#[verifier::reject_recursive_types(R)]
//@item src/util/fused_reader.rs struct FusedReader
//@include contracts/readers_spec.inc

//@impl src/util/equal_reader.rs "EqualReader<R>"
//@fn new ret r props C03
//@spec
    ensures
        r.0.remaining() == size,
        *r.0.inner() == reader,
//@endfn
//@endimpl

//@impl src/util/equal_reader.rs "Read for EqualReader<R>"
//@fn read ret res props C03,C13,C14,C15
//@spec
    // O-EQ-READ.  The stream contract itself is inherited from the `Read` trait specification
    // (prelude/io.rs) with stream() as defined above; in addition:
    ensures
        // never consumes more than `size` bytes of the inner source, and accounts for them exactly
        res is Ok ==> final(self).remaining() == old(self).remaining() - res->Ok_0,
        res is Ok ==> final(self).inner().stream() == old(self).inner().stream().skip(res->Ok_0 as int),
        res is Err ==> final(self).remaining() == old(self).remaining(),
        // at the boundary: end-of-stream, the inner source is not touched
        old(self).remaining() == 0 ==> res is Ok && res->Ok_0 == 0 && *final(self).inner() == *old(self).inner(),
        // O-REL-2 (C09): however much of the body the application reads, the position at which the source will be
        // handed to the next request does not move
        res is Ok ==> final(self).release_pos() == old(self).release_pos(),   // [C09]
//@endfn
//@endimpl

//@impl src/util/equal_reader.rs "Drop for EqualReader<R>" inherent
//@fn drop as drop_body props C09,C14,C15
//@spec
    ensures
        // O-DRAIN (C09): unless the source failed or ended early, exactly the unread remainder was discarded
        !final(self).inner().failed() && old(self).inner().stream().len() >= old(self).remaining()
            ==> final(self).inner().stream() == old(self).inner().stream().skip(old(self).remaining() as int),
        // ... i.e. the drop realises release()
        !final(self).inner().failed() && old(self).inner().stream().len() >= old(self).remaining()
            ==> final(self).inner().stream() == old(self).release_pos(),
//@loop 1
        invariant
            remaining_to_read <= self.size,
            self.size == old(self).size,
            !self.reader.failed() && old(self).reader.stream().len() >= self.size ==>
                self.reader.stream() == old(self).reader.stream().skip((self.size - remaining_to_read) as int),
        ensures
            !self.reader.failed() && old(self).reader.stream().len() >= self.size ==>
                self.reader.stream() == old(self).reader.stream().skip(self.size as int),
        decreases remaining_to_read,
//@endfn
//@endimpl

// ------------------------------------------------------------------ FusedReader
//@impl src/util/fused_reader.rs "FusedReader<R>"
//@fn new ret r props C03
//@spec
    ensures r.inner() == Some(inner),
//@endfn
//@endimpl

//@impl src/util/fused_reader.rs "Read for FusedReader<R>"
//@fn read ret res props C03,C11,C13,C15
//@spec
    ensures
        // O-FUSED: after the first Ok(0) the inner reader is gone (dropped: its source is released),
        // and every later read is Ok(0) without touching anything
        old(self).inner() is None ==> res is Ok && res->Ok_0 == 0 && final(self).inner() is None,
        old(self).inner() is Some && res is Ok && res->Ok_0 == 0 && old(buf)@.len() > 0 ==> final(self).inner() is None,
        // a zero-length read says nothing about end-of-stream (std::io::Read) and must change nothing
        old(buf)@.len() == 0 && res is Ok ==> final(self).inner() is Some == old(self).inner() is Some,
        old(self).inner() is Some && res is Ok && res->Ok_0 > 0 ==> final(self).inner() is Some,
//@endfn
//@endimpl

//@impl src/util/fused_reader.rs "Drop for FusedReader<R>" inherent required
//@fn drop as drop_body props C09,C14,C15
//@spec
    ensures
        // O-FUSED-DRAIN (C09): whatever the application left unread of the inner reader is read and discarded
        // (so an inner reader whose end-of-stream consumes framing bytes, like the chunk decoder, gets there)
        old(self).inner() is Some ==> final(self).inner() is Some
            && (final(self).inner()->Some_0.failed() || final(self).inner()->Some_0.stream().len() == 0),
        old(self).inner() is None ==> final(self).inner() is None,
//@loop 1
                ensures (*r).failed() || (*r).stream().len() == 0,
//@endfn
//@endimpl

} // verus!
fn main() {}
