// UNIT U-READERS: util/equal_reader.rs, util/fused_reader.rs  (DESIGN 4)
#![allow(unused_imports, dead_code, unused_variables, unused_mut, unused_parens)]
use vstd::prelude::*;
use std::io::Read;
use std::io::Result as IoResult;
use std::sync::mpsc::channel;
use std::sync::mpsc::{Receiver, Sender};
use std::io::IoSliceMut;
use std::mem;

verus! {
//@include prelude/io.rs
//@include prelude/chan.rs
//@include prelude/alloc.rs
//@include prelude/option.rs

pub assume_specification<T>[ std::sync::mpsc::channel::<T> ]() -> (r: (Sender<T>, Receiver<T>))
    ensures tx_chan(&r.0) == rx_chan(&r.1);
// effect witness: only `send` can establish it (DESIGN 3.4)
pub uninterp spec fn sent_on<T>(c: int, t: T) -> bool;
pub assume_specification<T>[ Sender::<T>::send ](s: &Sender<T>, t: T) -> (r: Result<(), std::sync::mpsc::SendError<T>>)
    ensures sent_on::<T>(tx_chan(s), t);

// ------------------------------------------------------------------ EqualReader
//@item src/util/equal_reader.rs struct EqualReader

#[verifier::reject_recursive_types(R)]
//@item src/util/fused_reader.rs struct FusedReader
//@include contracts/readers_spec.inc

//@impl src/util/equal_reader.rs "EqualReader<R>"
//@fn new ret r props C03
//@spec
    ensures
        r.0.remaining() == size,
        *r.0.inner() == reader,
//@endfn
//@endimpl

//@impl src/util/equal_reader.rs "Read for EqualReader<R>"
//@fn read ret res props C03,C13,C14,C15
//@spec
    // O-EQ-READ.  The stream contract itself is inherited from the `Read` trait specification
    // (prelude/io.rs) with stream() as defined above; in addition:
    ensures
        // never consumes more than `size` bytes of the inner source, and accounts for them exactly
        res is Ok ==> final(self).remaining() == old(self).remaining() - res->Ok_0,
        res is Ok ==> final(self).inner().stream() == old(self).inner().stream().skip(res->Ok_0 as int),
        res is Err ==> final(self).remaining() == old(self).remaining(),
        // at the boundary: end-of-stream, the inner source is not touched
        old(self).remaining() == 0 ==> res is Ok && res->Ok_0 == 0 && *final(self).inner() == *old(self).inner(),
        // O-REL-2 (C09): however much of the body the application reads, the position at which the source will be
        // handed to the next request does not move
        res is Ok ==> final(self).release_pos() == old(self).release_pos(),   // [C09]
//@endfn
//@endimpl

//@impl src/util/equal_reader.rs "Drop for EqualReader<R>" inherent
//@fn drop as drop_body props C09,C14,C15
//@spec
    ensures
        // O-DRAIN (C09): unless the source failed or ended early, exactly the unread remainder was discarded
        !final(self).inner().failed() && old(self).inner().stream().len() >= old(self).remaining()
            ==> final(self).inner().stream() == old(self).inner().stream().skip(old(self).remaining() as int),
        // ... i.e. the drop realises release()
        !final(self).inner().failed() && old(self).inner().stream().len() >= old(self).remaining()
            ==> final(self).inner().stream() == old(self).release_pos(),
//@loop 1
        invariant
            remaining_to_read <= self.size,
            self.size == old(self).size,
            !self.reader.failed() && old(self).reader.stream().len() >= self.size ==>
                self.reader.stream() == old(self).reader.stream().skip((self.size - remaining_to_read) as int),
        decreases remaining_to_read,
//@endfn
//@endimpl

// ------------------------------------------------------------------ FusedReader
//@impl src/util/fused_reader.rs "FusedReader<R>"
//@fn new ret r props C03
//@spec
    ensures r.inner() == Some(inner),
//@endfn
//@endimpl

//@impl src/util/fused_reader.rs "Read for FusedReader<R>"
//@fn read ret res props C03,C11,C13,C15
//@spec
    ensures
        // O-FUSED: after the first Ok(0) the inner reader is gone (dropped: its source is released),
        // and every later read is Ok(0) without touching anything
        old(self).inner() is None ==> res is Ok && res->Ok_0 == 0 && final(self).inner() is None,
        old(self).inner() is Some && res is Ok && res->Ok_0 == 0 && old(buf)@.len() > 0 ==> final(self).inner() is None,
        // a zero-length read says nothing about end-of-stream (std::io::Read) and must change nothing
        old(buf)@.len() == 0 && res is Ok ==> final(self).inner() is Some == old(self).inner() is Some,
        old(self).inner() is Some && res is Ok && res->Ok_0 > 0 ==> final(self).inner() is Some,
//@endfn
//@endimpl

// ------------------------------------------------------------------ SequentialReader (hand-off of the source)
// chan_val(c): the reader that is (or will be) transferred on the single-use channel c -- a prophecy variable.
// A-CHAN: each of these channels carries exactly one reader: the one its sender's owner sends when it is dropped.
pub uninterp spec fn chan_val<R>(c: int) -> R;
pub assume_specification<T>[ Receiver::<T>::recv ](s: &Receiver<T>) -> (r: Result<T, std::sync::mpsc::RecvError>)
    ensures r is Ok, r->Ok_0 == chan_val::<T>(rx_chan(s));

#[verifier::reject_recursive_types(R)]
//@item src/util/sequential.rs struct SequentialReaderBuilder
#[verifier::reject_recursive_types(R)]
//@item src/util/sequential.rs enum SequentialReaderBuilderInner
#[verifier::reject_recursive_types(R)]
//@item src/util/sequential.rs struct SequentialReader
#[verifier::reject_recursive_types(R)]
//@item src/util/sequential.rs enum SequentialReaderInner

impl<R: Read + Send> SequentialReader<R> {
    /// the reader this handle stands for: its own, or the one its predecessor will send
    pub closed spec fn current(&self) -> R {
        match self.inner {
            SequentialReaderInner::MyTurn(r) => r,
            SequentialReaderInner::Waiting(rx) => chan_val::<R>(rx_chan(&rx)),
            SequentialReaderInner::Empty => arbitrary(),
        }
    }
    pub closed spec fn is_empty(&self) -> bool { self.inner is Empty }
    pub closed spec fn next_chan(&self) -> int { tx_chan(&self.next) }
}
impl<R: Read + Send> ReadSpecImpl for SequentialReader<R> {
    open spec fn stream(&self) -> Seq<u8> { self.current().stream() }
    open spec fn failed(&self) -> bool { self.current().failed() }
    // SequentialReader::drop sends its reader on as it is (O-HANDOFF below)
    open spec fn release(&self) -> Seq<u8> { self.current().stream() }
    open spec fn drained(&self) -> Seq<u8> { Seq::empty() }
    open spec fn owns_source(&self) -> bool { true }
}
impl<R: Read + Send> SequentialReaderBuilder<R> {
    pub closed spec fn pending(&self) -> Option<int> {
        match self.inner { SequentialReaderBuilderInner::First(_) => None, SequentialReaderBuilderInner::NotFirst(rx) => Some(rx_chan(&rx)) }
    }
    pub closed spec fn first(&self) -> R { self.inner->First_0 }
}

//@impl src/util/sequential.rs "Iterator for SequentialReaderBuilder<R>" inherent
//@fn next ret r props C09,C13
//@spec
    ensures
        // O-RCHAIN: the first handle owns the source; every later one stands for the reader its predecessor sends
        r is Some && !r->Some_0.is_empty(),
        old(self).pending() is None ==> r->Some_0.current() == old(self).first(),
        old(self).pending() is Some ==> r->Some_0.current() == chan_val::<R>(old(self).pending()->Some_0),
        final(self).pending() == Some(r->Some_0.next_chan()),
//@endfn
//@endimpl

//@impl src/util/sequential.rs "Read for SequentialReader<R>"
//@fn read ret res props C13,C09
//@spec
    // The stream contract (inherited from the Read trait specification) with stream() = the stream of the reader this
    // handle stands for: waiting for the predecessor changes nothing about WHAT is read (C13: hand-off preserves the stream)
    ensures !final(self).is_empty(), final(self).next_chan() == old(self).next_chan(),
//@entry
        // A-TYPEINV: `Empty` is assigned only inside Drop::drop, after which no method can run (Rust drop semantics);
        // a trait-impl method cannot carry this as a `requires`
        proof { assume(!self.is_empty()); }
//@endfn
//@endimpl

//@impl src/util/sequential.rs "Drop for SequentialReader<R>" inherent
//@fn drop as drop_body props C09,C13
//@spec
    ensures
        // O-HANDOFF (C09): the successor receives exactly the reader this handle stands for, at its current position
        !old(self).is_empty() ==> sent_on::<R>(old(self).next_chan(), old(self).current()),
        final(self).is_empty(),
//@endfn
//@endimpl

//@impl src/util/fused_reader.rs "Drop for FusedReader<R>" inherent required
//@fn drop as drop_body props C09,C14,C15
//@spec
    ensures
        // O-FUSED-DRAIN (C09): whatever the application left unread of the inner reader is read and discarded
        // (so an inner reader whose end-of-stream consumes framing bytes, like the chunk decoder, gets there)
        old(self).inner() is Some ==> final(self).inner() is Some
            && (final(self).inner()->Some_0.failed() || final(self).inner()->Some_0.stream().len() == 0),
        old(self).inner() is None ==> final(self).inner() is None,
//@endfn
//@endimpl

} // verus!
fn main() {}
