// UNIT U-REQ: request.rs  the response slot of a Request  (DESIGN 5 / C06, C15, C18)
#![allow(unused_imports, dead_code, unused_variables, unused_mut)]
use vstd::prelude::*;
use std::io::Error as IoError;
use std::io::{self, Cursor, ErrorKind, Read, Write};
use std::net::SocketAddr;
use std::sync::mpsc::Sender;
use std::io::Result as IoResult;
use std::fmt;

verus! {
//@include prelude/io_error.rs
//@include prelude/chan.rs
//@include prelude/option.rs

#[verifier::external_type_specification]
#[verifier::external_body]
pub struct ExEmpty(std::io::Empty);
#[verifier::external_type_specification]
#[verifier::external_body]
pub struct ExSocketAddr(std::net::SocketAddr);

// effect witnesses (DESIGN 3.4): established only by the named call
pub uninterp spec fn print_attempted(status: u16, no_body: bool, upgrade: bool) -> bool;
// Printing a response is a capability: each entry point of the application-facing API is allowed exactly the response it
// is about (respond: the given one; drop: the 500; as_reader: the interim 100; upgrade: the switching response) -- a second
// response of another kind (say, a 500 appended after a failed write) is not among them (C06)
pub uninterp spec fn may_print(status: u16, no_body: bool, upgrade: bool) -> bool;
pub uninterp spec fn flush_called() -> bool;
pub uninterp spec fn notified_responded(ch: int) -> bool;

pub assume_specification<T>[ Sender::<T>::send ](s: &Sender<T>, t: T) -> (r: Result<(), std::sync::mpsc::SendError<T>>)
    ensures r is Ok, notified_responded(tx_chan(s));   // r is Ok: the https accept loop keeps the receiver alive (lib.rs); only used for `.unwrap()` panic freedom

#[verifier::external_trait_specification]
pub trait ExRead {
    type ExternalTraitSpecificationFor: std::io::Read;
    fn read(&mut self, buf: &mut [u8]) -> (r: std::io::Result<usize>);
}
/// writing raw bytes to the connection (C04 / C06: nothing reaches the wire outside a response printed by raw_print)
pub uninterp spec fn may_write_raw() -> bool;
#[verifier::external_trait_specification]
pub trait ExWrite {
    type ExternalTraitSpecificationFor: std::io::Write;
    fn write(&mut self, buf: &[u8]) -> (r: std::io::Result<usize>)
        requires may_write_raw();      // a capability no function of this unit is given, except `write` impls that forward (they inherit it)
    fn flush(&mut self) -> (r: std::io::Result<()>)
        ensures flush_called();
    fn by_ref(&mut self) -> (r: &mut Self) where Self: Sized
        ensures *r == *old(self), *final(r) == *final(self);
}

pub assume_specification<T, E, F, O: FnOnce(E) -> Result<T, F>>[ Result::<T, E>::or_else ](res: Result<T, E>, op: O) -> (r: Result<T, F>)
    ensures
        match res {
            Ok(t) => r == Ok::<T, F>(t),
            Err(e) => call_ensures(op, (e,), r),
        };

//@include contracts/common_types.inc

#[verifier::reject_recursive_types(R)]
//@item src/response.rs struct Response

impl<R> Response<R> {
    pub closed spec fn status(&self) -> u16 { self.status_code.0 }
    pub closed spec fn code(&self) -> StatusCode { self.status_code }
}

//@impl src/response.rs "Response<R> where R: Read,"
//@fn raw_print ret r
//@assume
//@spec
    // ASSUMED in this unit (verified in U-RESP): one response with this status is serialised to `writer`
    requires may_print(self.status(), do_not_send_body, upgrade is Some),
    ensures print_attempted(self.status(), do_not_send_body, upgrade is Some),
//@endfn
//@endimpl

// A5: companion vstd demands for a From impl; from_spec is what the real body below is verified against
impl vstd::std_specs::convert::FromSpecImpl<i32> for StatusCode {
    open spec fn obeys_from_spec() -> bool { true }
    open spec fn from_spec(v: i32) -> StatusCode { StatusCode(v as u16) }
}
//@impl src/common.rs "From<i32> for StatusCode"
//@fn from props C06
//@endfn
//@endimpl

//@impl src/response.rs "Response<io::Empty>"
//@fn empty ret r
//@assume
//@spec
    // ASSUMED in this unit (real body: Response::new(status_code.into(), .., io::empty(), Some(0), None))
    ensures call_ensures(S::into, (status_code,), r.code()),
//@endfn
//@fn new_empty ret r
//@assume
//@spec
    ensures r.status() == status_code.0,
//@endfn
//@endimpl

// R3 / R16 wrappers (same-body; Rust dynamic dispatch / unsizing is trusted)
#[verifier::external_body]
pub fn verif_box_dyn_Write<W: Write + 'static>(x: Box<W>) -> (r: Box<dyn Write>)
{ x }

// R2b/R3: the boxed upgrade stream is opaque to the crate
#[verifier::external_body]
pub struct VerifBoxedStream(Box<dyn Read>);
#[verifier::external_body]
pub fn verif_box_dyn_ReadWrite<T: Read + Write + 'static>(x: Box<T>) -> (r: VerifBoxedStream)
{ unimplemented!() }

#[verifier::reject_recursive_types(R)]
#[verifier::reject_recursive_types(W)]
//@item src/util/custom_stream.rs struct CustomStream
//@impl src/util/custom_stream.rs "CustomStream<R, W>"
//@fn new props C06
//@endfn
//@endimpl
//@impl src/util/custom_stream.rs "Read for CustomStream<R, W>"
//@fn read props C06
//@endfn
//@endimpl
//@impl src/util/custom_stream.rs "Write for CustomStream<R, W>"
//@fn write props C06
//@endfn
//@fn flush props C06
//@endfn
//@endimpl

#[verifier::external_body]
pub fn verif_unsize_mut_read(b: &mut Box<dyn Read>) -> (r: &mut dyn Read)
{ b }

#[verifier::reject_recursive_types(R)]
//@item src/request.rs struct NotifyOnDrop

//@impl src/request.rs "Read for NotifyOnDrop<R>"
//@fn read props C06
//@endfn
//@endimpl
//@impl src/request.rs "Write for NotifyOnDrop<R>"
//@fn write props C06
//@endfn
//@fn flush props C06
//@endfn
//@endimpl

impl<R> NotifyOnDrop<R> {
    pub closed spec fn chan(&self) -> int { tx_chan(&self.sender) }
}
//@impl src/request.rs "Drop for NotifyOnDrop<R>" inherent
//@fn drop as drop_body props C06
//@spec
    ensures notified_responded(old(self).chan()),
//@endfn
//@endimpl

//@item src/request.rs struct Request

impl Request {
    /// the data-structure invariant of the slot: answered <==> the writer has been taken
    pub closed spec fn answered(&self) -> bool { self.response_writer is None }
    pub closed spec fn slot(&self) -> Option<Box<dyn Write>> { self.response_writer }
    pub closed spec fn pending_continue(&self) -> bool { self.must_send_continue }
    pub closed spec fn has_reader(&self) -> bool { self.data_reader is Some }
    pub closed spec fn is_head(&self) -> bool { self.method is Head }
    pub closed spec fn notify_chan(&self) -> Option<int> { match self.notify_when_responded { Some(s) => Some(tx_chan(&s)), None => None } }
    /// frame: everything but the slot, the continue flag and the notify sender is unchanged
    pub closed spec fn same_head(&self, o: &Request) -> bool {
        &&& self.data_reader == o.data_reader
        &&& self.remote_addr == o.remote_addr
        &&& self.secure == o.secure
        &&& self.method == o.method
        &&& self.path == o.path
        &&& self.http_version == o.http_version
        &&& self.headers == o.headers
        &&& self.body_length == o.body_length
    }
}

//@impl src/request.rs "Request"
//@fn extract_writer_impl ret w props C06
//@spec
    requires !old(self).answered(),
    ensures
        final(self).answered(),
        Some(w) == old(self).slot(),
        final(self).same_head(old(self)),
        final(self).pending_continue() == old(self).pending_continue(),
        final(self).notify_chan() == old(self).notify_chan(),
//@endfn

//@fn extract_reader_impl ret rd props C06
//@spec
    requires old(self).has_reader(),
    ensures !final(self).has_reader(), final(self).slot() == old(self).slot(),
//@endfn

//@fn as_reader ret rd props C18,C06
//@wraptail verif_unsize_mut_read
//@spec
    requires !old(self).answered(), old(self).has_reader(),
    ensures
        // O-CONTINUE (C18): the interim 100 is printed (head only) and flushed exactly when the flag is
        // set, the flag is cleared, and the slot stays occupied (so a final response still follows)
        old(self).pending_continue() ==> print_attempted(100, true, false) && flush_called(),
        !final(self).pending_continue(),
        // the type invariant of a Request in the application's hands (unanswered, body reader present: established by
        // new_request, U-NEWREQ) is preserved by the only public `&mut self` method, so the preconditions of
        // as_reader / respond / into_writer / upgrade hold whenever the application can call them
        !final(self).answered(), final(self).has_reader(),
        // requests without the expectation: the writer is not touched at all
        !old(self).pending_continue() ==> final(self).slot() == old(self).slot(),
        final(self).notify_chan() == old(self).notify_chan(),
//@entry
        proof { assume(forall|s: u16, b: bool, u: bool| #[trigger] may_print(s, b, u) <==> (s == 100 && b && !u)); }
//@endfn

//@fn into_writer ret w props C06
//@spec
    requires !self.answered(),
//@before 1 if let Some ( sender )
        // the Request that is dropped when this function returns is `answered`: its Drop writes no 500
        proof { assert(__self.answered()); }
//@endfn

//@fn upgrade ret st props C06
//@spec
    requires !self.answered(), self.has_reader(),
    ensures
        // the switching-protocols response is the one final response: printed with the upgrade token, body allowed, then flushed
        print_attempted(response.status(), false, true),
        flush_called(),
//@entry
        proof { assume(forall|s: u16, b: bool, u: bool| #[trigger] may_print(s, b, u) <==> (s == response.status() && !b && u)); }
//@before 1 if let Some ( sender )
        proof { assert(__self.answered()); }
//@endfn

//@fn respond ret res props C06
//@spec
    requires !self.answered(),
    ensures
        print_attempted(response.status(), self.is_head(), false),
        res is Ok ==> flush_called(),
        self.notify_chan() is Some ==> notified_responded(self.notify_chan()->Some_0),
//@entry
        proof { assume(forall|s: u16, b: bool, u: bool| #[trigger] may_print(s, b, u) <==> (s == response.status() && b == __self.is_head() && !u)); }
//@endfn

//@fn respond_impl ret res props C06,C15
//@spec
    requires !old(self).answered(), may_print(response.status(), old(self).is_head(), false),
    ensures
        // O-RESPOND: the slot is taken, exactly the given response is printed on it (no body for HEAD), then flushed
        final(self).answered(),
        print_attempted(response.status(), old(self).is_head(), false),
        res is Ok ==> flush_called(),
        final(self).same_head(old(self)),
        final(self).notify_chan() == old(self).notify_chan(),
//@endfn

//@fn ignore_client_closing_errors ret r props C15
//@spec
    ensures
        // O-VANISHED (C15): answering a vanished client is a success; every other error is passed on unchanged
        result is Ok ==> r is Ok,
        result is Err ==> ({
            let k = io_error_kind(&result->Err_0);
            if k == ErrorKind::BrokenPipe || k == ErrorKind::ConnectionAborted || k == ErrorKind::ConnectionRefused || k == ErrorKind::ConnectionReset
                { r is Ok } else { r == result }
        }),
//@closure ~err.kind()~ |err: IoError| -> (cr: io::Result<()>) ensures ({ let k = io_error_kind(&err); if k == ErrorKind::BrokenPipe || k == ErrorKind::ConnectionAborted || k == ErrorKind::ConnectionRefused || k == ErrorKind::ConnectionReset { cr is Ok } else { cr == Err::<(), IoError>(err) } })
//@endfn
//@endimpl

//@impl src/request.rs "Drop for Request" inherent
//@fn drop as drop_body props C06
//@spec
    ensures
        // O-DROP500: an unanswered request gets exactly one 500, printed and flushed, on its own writer ...
        final(self).answered(),
        !old(self).answered() ==> print_attempted(500, old(self).is_head(), false),
        // ... and the connection thread that waits for "answered" (https, lib.rs) is told, as after respond()
        !old(self).answered() && old(self).notify_chan() is Some ==> notified_responded(old(self).notify_chan()->Some_0),
        // ... an answered one is left alone
        old(self).answered() ==> *final(self) == *old(self),
        final(self).same_head(old(self)),
//@entry
        proof { assume(forall|s: u16, b: bool, u: bool| #[trigger] may_print(s, b, u) <==> (s == 500 && b == self.is_head() && !u)); }
//@endfn
//@endimpl

//@include lemmas/l_once.rs

} // verus!
fn main() {}
