// UNIT U-CTE: response.rs  choose_transfer_encoding + TransferEncoding::from_str  (DESIGN 5 / C05 first sentences, C14)
#![feature(pattern)]
#![feature(allocator_api)]
#![allow(unused_imports, dead_code, unused_variables, unused_mut, non_snake_case)]
use vstd::prelude::*;
use std::str::FromStr;
use std::cmp::Ordering;
use vstd::string::StringSliceAdditionalSpecFns;

verus! {
//@include prelude/iter.rs
//@include prelude/str.rs
//@include prelude/option.rs
//@include prelude/try.rs

//@include contracts/common_types.inc
//@include contracts/version_cmp.inc
//@include contracts/header_lookup.inc
//@include contracts/common_api_assumed.inc
//@include prelude/float.rs

// util::parse_header_value is str::split / filter_map / f32::from_str code: outside this Verus (DESIGN 1: Pattern).
// ASSUMED: it returns the list te_elems(input) of (name, quality) pairs -- an uninterpreted function of the header
// value; ANY f32 is possible as a quality, including NaN and the infinities ("q=NaN", "q=inf" parse as floats).
pub uninterp spec fn te_elems(input: Seq<char>) -> Seq<(Seq<char>, f32)>;
pub open spec fn elem_of(e: (&str, f32)) -> (Seq<char>, f32) { (e.0@, e.1) }
pub mod util {
    use super::*;
    #[verifier::external_body]
    pub fn parse_header_value(input: &str) -> (r: Vec<(&str, f32)>)
        ensures r@.len() == te_elems(input@).len(), forall|i: int| 0 <= i < r@.len() ==> elem_of(#[trigger] r@[i]) == te_elems(input@)[i],
    { unimplemented!() }
}

// ---- the real util::parse_header_value, for panic freedom (C14): what it RETURNS stays the uninterpreted te_elems above ----
//@include prelude/trim.rs
//@include prelude/split.rs
#[verifier::external_type_specification]
#[verifier::external_body]
pub struct ExParseFloatError(core::num::ParseFloatError);
// ASSUMED: f32::from_str may accept or refuse anything, and any float may come out (NaN and the infinities included)
pub assume_specification[ <f32 as FromStr>::from_str ](s: &str) -> (r: Result<f32, core::num::ParseFloatError>);

/// PROVED: a text that starts with `q=` starts with two ASCII characters (so byte offset 2 is character offset 2)
pub broadcast proof fn lemma_q_prefix(s: Seq<char>)
    ensures #![trigger s.take(2)] (s.len() >= 2 && s.take(2) == "q="@) ==> forall|i: int| 0 <= i < 2 ==> (#[trigger] s[i] as u32) < 128
{
    reveal_strlit("q=");
    if s.len() >= 2 && s.take(2) == "q="@ {
        assert(s.take(2)[0] == 'q' && s.take(2)[1] == '=');
        assert(s[0] == 'q' && s[1] == '=');
        assert(('q' as u32) < 128 && ('=' as u32) < 128);
    }
}
//@fn src/util/mod.rs parse_header_value as parse_header_value_real ret r props C14
//@iterator params
//@spec
    // O-TE-PARSE-SAFE (C14): no input makes it panic: the `[2..]` slice is taken only behind `starts_with("q=")`, every
    // `?` / `unwrap`-free; nothing is claimed here about the list it returns
    ensures true,
//@loopentry 1
                broadcast use axiom_starts_with_str, lemma_trim_start_unique, lemma_q_prefix;
                proof { reveal_strlit("q="); }
//@endfn

// key of the descending sort on the quality value (witness of the total preorder the comparator must implement)
pub open spec fn verif_sort_key(e: (&str, f32)) -> int { -fkey(e.1) }

/// C05, second sentence, from the property statement: an element of the TE list counts when its quality is a number
/// above zero and it names a coding the server supports
pub open spec fn qualified(e: (Seq<char>, f32)) -> bool {
    !is_nan(e.1) && !f_le(e.1, 0.0f32) && (eq_ic(e.0, "identity"@) || eq_ic(e.0, "chunked"@))
}
/// ... and "the most preferred" one of them is chosen (ties: any of the most preferred)
pub open spec fn te_pick(l: Seq<(Seq<char>, f32)>, o: Option<TransferEncoding>) -> bool {
    match o {
        Some(t) => exists|i: int| 0 <= i < l.len() && qualified(#[trigger] l[i])
            && (if eq_ic(l[i].0, "identity"@) { t is Identity } else { t is Chunked })
            && forall|j: int| 0 <= j < l.len() && qualified(#[trigger] l[j]) ==> fkey(l[j].1) <= fkey(l[i].1),
        None => forall|i: int| 0 <= i < l.len() ==> !qualified(#[trigger] l[i]),
    }
}

//@item src/response.rs enum TransferEncoding

// (closed accessors: the enum is private, `from_str` is public through the trait)
pub closed spec fn te_is(r: Result<TransferEncoding, ()>, chunked: bool) -> bool {
    r is Ok && (if chunked { r->Ok_0 is Chunked } else { r->Ok_0 is Identity })
}
//@impl src/response.rs "FromStr for TransferEncoding"
//@fn from_str ret r props C05
//@spec
    ensures
        // O-TE-NAMES: exactly the two supported codings are recognised, in any letter case
        eq_ic(input@, "identity"@) ==> te_is(r, false),
        !eq_ic(input@, "identity"@) && eq_ic(input@, "chunked"@) ==> te_is(r, true),
        !eq_ic(input@, "identity"@) && !eq_ic(input@, "chunked"@) ==> r is Err,
//@endfn
//@endimpl

//@include contracts/cte_table.inc

//@fn src/response.rs choose_transfer_encoding ret r props C05,C14
//@spec
    ensures
        // C05, first sentence, for EVERY request (whatever its TE header says): never chunked for HTTP/1.0 or older, 1xx, 204
        lex_cmp((http_version.0, http_version.1), (1, 0)) != Ordering::Greater || status_code.0 < 200 || status_code.0 == 204 ==> r is Identity,   // [C05]
        // C05, third sentence: without a TE header the threshold rule decides
        !has_hdr(request_headers@, "TE"@) && !has_additional_headers ==> ((r is Chunked) == cte_table(status_code.0, *http_version, *entity_length, chunked_threshold)),   // [C05]
        // C05, second sentence: otherwise the most preferred supported coding (q > 0) named in the TE header is used;
        // if it names none, the threshold rule again
        has_hdr(request_headers@, "TE"@) && lex_cmp((http_version.0, http_version.1), (1, 0)) == Ordering::Greater && status_code.0 >= 200 && status_code.0 != 204
            ==> (te_pick(te_elems(first_value(request_headers@, "TE"@)), Some(r))
                 || (te_pick(te_elems(first_value(request_headers@, "TE"@)), None::<TransferEncoding>)
                     && (has_additional_headers || ((r is Chunked) == cte_table(status_code.0, *http_version, *entity_length, chunked_threshold))))),   // [C05]
//@entry
    broadcast use axiom_find_post, lemma_as_ref_index, lemma_as_ref_index_fwd;
//@after 1 let user_request
    proof {   // [C05]
        let name = "TE"@;
        let hs = request_headers@;
        if exists|i: int| 0 <= i < hs.len() && hdr_is(#[trigger] hs[i], name) {
            let i = choose|i: int| 0 <= i < hs.len() && hdr_is(#[trigger] hs[i], name)
                && te_pick(te_elems(hs[i].value@), user_request)
                && forall|j: int| 0 <= j < i ==> !hdr_is(#[trigger] hs[j], name);
            lemma_first(hs, name, i);
        } else {
            assert(forall|j: int| 0 <= j < hs.len() ==> !hdr_is(#[trigger] hs[j], name));
            lemma_none(hs, name);
            assert(user_request is None);
        }
    }
//@closure ~equiv("TE")~ |h: &&Header| -> (b: bool) ensures b == hdr_is(**h, "TE"@)
//@closure ~h.value.clone()~ |h: &Header| -> (o: AsciiString) ensures o == h.value
//@closure ~util::parse_header_value~ |value: AsciiString| -> (o: Option<TransferEncoding>) ensures te_pick(te_elems(value@), o)
//@closure ~is_nan~ |elem: &(&str, f32)| -> (b: bool) ensures b == !is_nan(elem.1)
//@closure ~partial_cmp~ |a: &(&str, f32), b: &(&str, f32)| -> (o: Ordering) ensures o == (match fcmp(b.1, a.1) { Some(x) => x, None => Ordering::Equal })
//@closure ~*val >= chunked_threshold~ |val: &usize| -> (b: bool) ensures b == (*val >= chunked_threshold)
//@after 1 let mut parse
            let ghost l = te_elems(value@);
            let ghost p0 = parse@;      // the parsed list: elem_of(p0[i]) == l[i]
//@before 1 for value in
            let ghost p2 = parse@;      // what the loop goes through: the list without its NaNs, in descending order of quality
            let ghost mut idx: int = 0;
            proof {
                // (H1) nothing in it is a NaN, and everything in it comes from the parsed list
                assert forall|m: int| 0 <= m < p2.len() implies !is_nan(#[trigger] p2[m].1) && p0.contains(p2[m]) by {}
                // (H2) every element of the parsed list that is not a NaN is in it
                assert forall|i: int| 0 <= i < p0.len() && !is_nan(#[trigger] p0[i].1) implies p2.contains(p0[i]) by {}
                // (H3) in descending order of quality
                assert forall|i: int, j: int| 0 <= i <= j < p2.len() implies verif_sort_key(#[trigger] p2[i]) <= verif_sort_key(#[trigger] p2[j]) by {}
            }
//@loop 1
                invariant
                    0 <= idx <= p2.len(), __it1.remaining() == p2.as_ref().skip(idx),
                    // the elements already passed over do not count
                    forall|j: int| 0 <= j < idx ==> !qualified(elem_of(#[trigger] p2[j])),
//@loopentry 1
                // (spliced behind `let value = match __it1.next() { Some(v) => v, None => break };`)
                broadcast use lemma_as_ref_index, lemma_as_ref_index_fwd;
                proof {
                    assert(p2.as_ref().skip(idx).len() > 0 && idx < p2.len());
                    assert(*value == p2[idx]);
                    assert(p2.as_ref().skip(idx).skip(1) =~= p2.as_ref().skip(idx + 1));
                    idx = idx + 1;
                }
//@before 1 return Some (
                    proof {   // [C05]
                        let cur = p2[idx - 1];
                        assert(p0.contains(cur));
                        let i0 = choose|i: int| 0 <= i < p0.len() && p0[i] == cur;
                        assert(elem_of(p0[i0]) == l[i0]);
                        assert(qualified(l[i0]));
                        // most preferred: any other element that counts was sorted behind it
                        assert forall|j: int| 0 <= j < l.len() && qualified(#[trigger] l[j]) implies fkey(l[j].1) <= fkey(l[i0].1) by {
                            assert(elem_of(p0[j]) == l[j]);
                            assert(p2.contains(p0[j]));
                            let m = choose|m: int| 0 <= m < p2.len() && p2[m] == p0[j];
                            if m < idx - 1 { assert(!qualified(elem_of(p2[m]))); }
                            assert(verif_sort_key(p2[idx - 1]) <= verif_sort_key(p2[m]));
                        }
                    }
//@loopexit 1
            proof {   // [C05]
                assert(idx == p2.len());
                assert forall|i: int| 0 <= i < l.len() implies !qualified(#[trigger] l[i]) by {
                    assert(elem_of(p0[i]) == l[i]);
                    if !is_nan(p0[i].1) {
                        assert(p2.contains(p0[i]));
                        let m = choose|m: int| 0 <= m < p2.len() && p2[m] == p0[i];
                        assert(!qualified(elem_of(p2[m])));
                    }
                }
                assert(te_pick(l, None::<TransferEncoding>));
            }
//@endfn

} // verus!
fn main() {}
