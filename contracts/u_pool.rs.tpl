// UNIT U-POOL: util/task_pool.rs  TaskPool::spawn   (DESIGN 5 / C08)
#![feature(allocator_api)]
#![allow(unused_imports, dead_code, unused_variables, unused_mut)]
use vstd::prelude::*;
use std::collections::VecDeque;
use std::sync::atomic::{AtomicUsize, Ordering};
use std::sync::{Arc, Condvar, Mutex, MutexGuard};

verus! {
//@include prelude/sync.rs
//@include prelude/vecdeque.rs


// effect witness (DESIGN 3.4): only notify_one can establish it
pub uninterp spec fn notified(c: &Condvar) -> bool;
pub assume_specification[ Condvar::notify_one ](c: &Condvar)
    ensures notified(c);

// R7: the two counters are atomics that are only WRITTEN while the `todo` lock is held
// (Registration::new / drop run inside the guard's scope in the worker loop), so under the lock
// a load returns the lock-protected ghost value.
pub uninterp spec fn protected_count(a: &AtomicUsize) -> usize;
#[verifier::external_body]
pub fn verif_protected_load(a: &AtomicUsize, o: Ordering) -> (r: usize)
    ensures r == protected_count(a)
{ a.load(o) }

// R2: the pool never looks inside a task
#[verifier::external_body]
pub struct VerifTask(Box<dyn FnMut() + Send>);

//@item src/util/task_pool.rs struct TaskPool
//@item src/util/task_pool.rs struct Sharing

// Monitor invariant of the pool (holds whenever the `todo` lock is free):
// every queued connection has its own registered idle worker that has been or will be woken for it.
pub open spec fn pool_inv(todo: &VecDeque<VerifTask>, waiting: usize) -> bool {
    todo@.len() <= waiting
}

pub uninterp spec fn thread_added_for(t: Option<VerifTask>) -> bool;

//@impl src/util/task_pool.rs "TaskPool"
//@fn spawn props C08
//@after 1 lock ( ) . unwrap ( )
        // monitor: the invariant holds when the lock is acquired (A-MUTEX + all other critical sections preserve it)
        proof { assume(pool_inv(gval(&queue), protected_count(&self.sharing.waiting_tasks))); }
//@exit
        // O-SPAWN-INV: the invariant holds again when the guard is released ...
        proof { assert(pool_inv(gval(&queue), protected_count(&self.sharing.waiting_tasks))); }
        // ... and the connection was either given a fresh thread or queued with one waiter notified
        proof { assert(
            (thread_added_for(Some(code)) && gval(&queue)@ == acq(&queue)@)
            || (gval(&queue)@ == acq(&queue)@.push(code) && notified(&self.sharing.condvar))
        ); }
//@endfn

// add_thread spawns an OS thread running a closure: outside the verifier's reach; contract = effect witness only
#[verifier::external_body]
fn add_thread(&self, initial_fn: Option<VerifTask>)
    ensures thread_added_for(initial_fn)
{
    unimplemented!()
}
//@endimpl

} // verus!
fn main() {}
