// UNIT U-TASK: lib.rs  the per-connection task = the closure handed to TaskPool::spawn by the accept loop
//   (DESIGN 5 / C07 "every request delivered exactly once", C01/C10 A-APP link, C08 "one worker per connection")
#![allow(unused_imports, dead_code, unused_variables, unused_mut)]
use vstd::prelude::*;
use std::sync::{Arc, Condvar, Mutex};
use std::sync::mpsc;
use std::sync::mpsc::{Sender, Receiver};
use std::io::Error as IoError;

verus! {
//@include prelude/io_error.rs
//@include prelude/chan.rs
//@include prelude/option.rs
//@include prelude/try.rs

// ---- opaque stand-ins: this unit looks into none of them ----
#[verifier::external_body]
pub struct Request { _opaque: u8 }
impl Request {
    /// the turn channel of the response writer this request owns (vocabulary of U-CONN)
    pub uninterp spec fn writer_chan(&self) -> int;
    /// this request signals on channel c when it has been answered or dropped (HTTPS connections)
    pub uninterp spec fn notifies(&self, c: int) -> bool;
    // Request::with_notify_sender (request.rs) only fills the notify slot: ASSUMED frame
    #[verifier::external_body]
    pub fn with_notify_sender(self, sender: Sender<()>) -> (r: Request)
        ensures r.writer_chan() == self.writer_chan(), r.notifies(tx_chan(&sender))
    { unimplemented!() }
}
#[verifier::external_body]
#[verifier::reject_recursive_types(T)]
pub struct MessagesQueue<T> where T: Send { _opaque: core::marker::PhantomData<T> }

// witnesses (vocabulary of U-QUEUE / U-CONN)
pub uninterp spec fn enqueued_elem<T: Send>(q: &MessagesQueue<T>, v: T) -> bool;
pub uninterp spec fn handed_off(c: int) -> bool;

// the contract PROVED in U-QUEUE (O-PUSH: exactly this element is appended; tools/linkcheck.py compares the texts)
//@impl src/util/messages_queue.rs "MessagesQueue<T>"
//@fn push
//@assume
//@spec
    ensures
        enqueued_elem(self, value),
//@endfn
//@endimpl

#[verifier::external_body]
pub struct ClientConnection { _opaque: u8 }
impl ClientConnection {
    /// the writer issued last by this connection's sink (vocabulary of U-CONN)
    pub uninterp spec fn last_issued(&self) -> Option<int>;
    pub open spec fn prior_handed_off(&self) -> bool { self.last_issued() is Some ==> handed_off(self.last_issued()->Some_0) }
    // ClientConnection::secure is a field accessor
    #[verifier::external_body]
    pub fn secure(&self) -> (r: bool) { unimplemented!() }
    // `impl Iterator for ClientConnection`: the contract of U-CONN (precondition O-NOSELFWAIT's premise; the delivered
    // request owns the writer issued last -- there a return-point assertion; on None everything issued has died)
    #[verifier::external_body]
    pub fn next(&mut self) -> (res: Option<Request>)
        requires old(self).prior_handed_off(),
        ensures match res {
            Some(rq) => final(self).last_issued() == Some(rq.writer_chan()),
            None => true,
        },
    { unimplemented!() }
}

//@item src/lib.rs enum Message
// (closed: the enum is private, `from` is public through the trait)
pub closed spec fn msg_of(rq: Request) -> Message { Message::NewRequest(rq) }
//@impl src/lib.rs "From<Request> for Message"
//@fn from ret m props C07
//@spec
    ensures m == msg_of(rq),
//@endfn
//@endimpl

impl vstd::std_specs::convert::FromSpecImpl<Request> for Message {
    open spec fn obeys_from_spec() -> bool { true }
    closed spec fn from_spec(v: Request) -> Message { Message::NewRequest(v) }
}

// A-APP, made explicit: a request that sits in the server's message queue is in the application's hands -- the
// application takes it out (recv / try_recv / recv_timeout / incoming_requests: U-QUEUE) and eventually answers or drops it
broadcast axiom fn axiom_queued_is_handed_off(q: &MessagesQueue<Message>, rq: Request)
    ensures #[trigger] enqueued_elem(q, msg_of(rq)) ==> handed_off(rq.writer_chan());

// ASSUMED (A-CHAN): the notify channel of an HTTPS connection.  Waiting is a capability: the connection task may wait
// for the notification only of a request that is in the application's hands (A-APP: it will be answered or dropped, and
// both signal) -- waiting for a request that was never delivered would block the connection for good
pub uninterp spec fn may_wait(c: int) -> bool;
broadcast axiom fn axiom_delivered_will_notify(q: &MessagesQueue<Message>, rq: Request, c: int)
    ensures #[trigger] enqueued_elem(q, msg_of(rq)) && #[trigger] rq.notifies(c) ==> may_wait(c);
pub assume_specification<T>[ mpsc::channel::<T> ]() -> (r: (Sender<T>, Receiver<T>))
    ensures tx_chan(&r.0) == rx_chan(&r.1);
pub assume_specification<T>[ <Sender<T> as Clone>::clone ](s: &Sender<T>) -> (r: Sender<T>)
    ensures tx_chan(&r) == tx_chan(s);
pub assume_specification<T>[ Receiver::<T>::recv ](s: &Receiver<T>) -> (r: Result<T, std::sync::mpsc::RecvError>)
    requires may_wait(rx_chan(s)),
    ensures r is Ok;

//@lift src/lib.rs from_listener ~client.take()~ src/lib.rs#conn_task fn conn_task(mut client: Option<ClientConnection>, messages: Arc<MessagesQueue<Message>>)
//@fn src/lib.rs#conn_task conn_task props C07,C08,C01,C10
//@spec
    // a fresh connection has issued nothing yet (ClientConnection::new)
    requires client is Some ==> client->Some_0.prior_handed_off(),
//@iterator client
//@entry
    broadcast use axiom_queued_is_handed_off, axiom_delivered_will_notify;
//@loop 1
                                        invariant __it1.prior_handed_off(), tx_chan(&sender) == rx_chan(&receiver),
//@loopentry 1
                                        broadcast use axiom_queued_is_handed_off, axiom_delivered_will_notify;
//@loop 2
                                        // O-TASK (C07, C01/C10): every request the connection yields is put into the server's queue, once, before
                                        // the connection is asked for the next one -- so `next` is only ever called when everything it issued
                                        // before is in the application's hands (the premise of O-NOSELFWAIT)
                                        invariant __it2.prior_handed_off(),
//@loopentry 2
                                        broadcast use axiom_queued_is_handed_off, axiom_delivered_will_notify;
//@endfn

// ---- code this unit's claims rely on that is outside the verifier: pinned to the reference tree (rule ix of ./check) ----
// the accept loop around the connection task (one task per accepted connection, the loop goes on after an error); the task
// closure itself is lifted and verified above, its text is left out of what is pinned here
//@watch src/lib.rs "impl Server" from_listener
} // verus!
fn main() {}
