// UNIT U-CONN: client.rs  ClientConnection::{read_next_line, read, next}  (DESIGN 5 / C10, C12, C13, C15, C16, C01)
#![feature(pattern)]
#![allow(unused_imports, dead_code, unused_variables, unused_mut)]
#![verifier::allow(undeclared_external_trait)]
use vstd::prelude::*;
use std::io::Error as IoError;
use std::io::Result as IoResult;
use std::io::{self, ErrorKind, Read, Write, Bytes};
use std::net::SocketAddr;
use std::str::FromStr;
use std::sync::mpsc::{Receiver, Sender};
use std::sync::{Arc, Mutex};
use std::fmt;
use std::cmp::Ordering;
use std::io::Cursor;

verus! {
//@include prelude/io.rs
//@include prelude/chan.rs
//@include prelude/sync.rs
//@include prelude/iter.rs
//@include prelude/str.rs
//@include prelude/option.rs
//@include prelude/bytes.rs

#[verifier::external_type_specification]
#[verifier::external_body]
pub struct ExSocketAddr(std::net::SocketAddr);
#[verifier::external_type_specification]
#[verifier::external_body]
pub struct ExEmpty(std::io::Empty);
// R19: Cursor<Vec<u8>> as a local opaque reader type
#[verifier::external_body]
pub struct VerifCursor { c: std::io::Cursor<Vec<u8>> }
#[verifier::external] impl Read for VerifCursor { fn read(&mut self, buf: &mut [u8]) -> io::Result<usize> { unimplemented!() } }
impl ReadSpecImpl for VerifCursor {
    open spec fn stream(&self) -> Seq<u8> { Seq::empty() }
    open spec fn failed(&self) -> bool { false }
    open spec fn release(&self) -> Seq<u8> { Seq::empty() }
    open spec fn drained(&self) -> Seq<u8> { Seq::empty() }
    open spec fn owns_source(&self) -> bool { false }
}

// Write with a ghost identity: wchan() = the finish channel behind this writer.  Writing through a
// writer never changes which channel it will signal (ASSUMED for every Write impl: true for
// SequentialWriter, whose on_finish field is never reassigned; wrappers forward).
/// writing raw bytes to the connection (C04 / C06: nothing reaches the wire outside a response printed by raw_print)
pub uninterp spec fn may_write_raw() -> bool;
#[verifier::external_trait_specification]
#[verifier::external_trait_extension(WriteSpec via WriteSpecImpl)]
pub trait ExWrite {
    type ExternalTraitSpecificationFor: std::io::Write;
    spec fn wchan(&self) -> int;
    fn write(&mut self, buf: &[u8]) -> (r: std::io::Result<usize>)
        requires may_write_raw(),      // a capability no function of this unit is given: the connection thread writes responses through raw_print only
        ensures final(self).wchan() == old(self).wchan();
    fn flush(&mut self) -> (r: std::io::Result<()>)
        ensures flush_called(), final(self).wchan() == old(self).wchan();
    fn by_ref(&mut self) -> (r: &mut Self) where Self: Sized
        ensures *r == *old(self), *final(r) == *final(self);
}
impl<'a, W: std::io::Write> WriteSpecImpl for &'a mut W {
    open spec fn wchan(&self) -> int { (**self).wchan() }
}
impl<W: std::io::Write + ?Sized> WriteSpecImpl for Box<W> {
    open spec fn wchan(&self) -> int { (**self).wchan() }
}

#[verifier::external_body]
pub fn verif_io_error(kind: ErrorKind, msg: &str) -> (r: IoError)
    ensures io_error_kind(&r) == kind
{ IoError::new(kind, msg) }

// R20: std::io::BufReader<RefinedTcpStream> / BufWriter<RefinedTcpStream> as local opaque types (the trait-conflict
// checker cannot see std's `impl Read for BufReader<R>`); ASSUMED: BufReader preserves the byte stream of the socket.
#[verifier::external_body]
pub struct VerifBufReader { x: u8 }
#[verifier::external_body]
pub struct VerifBufWriter { x: u8 }
pub uninterp spec fn sock_stream(r: &VerifBufReader) -> Seq<u8>;
pub uninterp spec fn sock_failed(r: &VerifBufReader) -> bool;
impl ReadSpecImpl for VerifBufReader {
    open spec fn stream(&self) -> Seq<u8> { sock_stream(self) }
    open spec fn failed(&self) -> bool { sock_failed(self) }
    open spec fn release(&self) -> Seq<u8> { sock_stream(self) }     // a raw source: handed on where it stands
    open spec fn drained(&self) -> Seq<u8> { Seq::empty() }
    open spec fn owns_source(&self) -> bool { true }
}
#[verifier::external] impl Read for VerifBufReader { fn read(&mut self, buf: &mut [u8]) -> io::Result<usize> { unimplemented!() } }
pub uninterp spec fn bufwriter_chan(w: &VerifBufWriter) -> int;
impl WriteSpecImpl for VerifBufWriter { open spec fn wchan(&self) -> int { bufwriter_chan(self) } }
#[verifier::external] impl Write for VerifBufWriter { fn write(&mut self, buf: &[u8]) -> io::Result<usize> { unimplemented!() } fn flush(&mut self) -> io::Result<()> { unimplemented!() } }

//@include contracts/common_types.inc

// ---- util/sequential.rs: types verbatim, operations by contract (proved in U-SEQ / U-READERS) ----
#[verifier::reject_recursive_types(R)]
//@item src/util/sequential.rs struct SequentialReaderBuilder
#[verifier::reject_recursive_types(R)]
//@item src/util/sequential.rs enum SequentialReaderBuilderInner
#[verifier::reject_recursive_types(R)]
//@item src/util/sequential.rs struct SequentialReader
#[verifier::reject_recursive_types(R)]
//@item src/util/sequential.rs enum SequentialReaderInner
#[verifier::reject_recursive_types(W)]
//@item src/util/sequential.rs struct SequentialWriterBuilder
#[verifier::reject_recursive_types(W)]
//@item src/util/sequential.rs struct SequentialWriter

pub uninterp spec fn seq_reader_stream<R: Read + Send>(r: &SequentialReader<R>) -> Seq<u8>;
pub uninterp spec fn seq_reader_failed<R: Read + Send>(r: &SequentialReader<R>) -> bool;
impl<R: Read + Send> ReadSpecImpl for SequentialReader<R> {
    open spec fn stream(&self) -> Seq<u8> { seq_reader_stream(self) }
    open spec fn failed(&self) -> bool { seq_reader_failed(self) }
    open spec fn release(&self) -> Seq<u8> { seq_reader_stream(self) }   // SequentialReader::drop sends its reader on as it is
    open spec fn drained(&self) -> Seq<u8> { Seq::empty() }
    open spec fn owns_source(&self) -> bool { true }
}
#[verifier::external] impl<R: Read + Send> Read for SequentialReader<R> { fn read(&mut self, buf: &mut [u8]) -> io::Result<usize> { unimplemented!() } }
#[verifier::external] impl<W: Write + Send> Write for SequentialWriter<W> { fn write(&mut self, buf: &[u8]) -> io::Result<usize> { unimplemented!() } fn flush(&mut self) -> io::Result<()> { unimplemented!() } }

//@include contracts/version_cmp.inc

// ---- turn tokens as seen from the connection thread (DESIGN 5 / C10 O-NOSELFWAIT) ----
// handed_off(c): the writer whose finish channel is c has left this thread's hands for good (it was moved
// into a callee by value / explicitly dropped / returned to the application) -- so waiting for its
// turn token cannot be a wait on something this thread still holds.  ASSUMED source of these facts:
// Rust ownership (A-DROP): a holder passed by value to one of the functions below dies there.
pub uninterp spec fn handed_off(c: int) -> bool;
/// the finish channel behind a writer value (of any static type)
pub uninterp spec fn chan_of<W>(w: W) -> int;

impl<W: Write + Send> SequentialWriterBuilder<W> {
    pub closed spec fn last_issued(&self) -> Option<int> {
        match self.next_trigger { Some(r) => Some(rx_chan(&r)), None => None }
    }
}
impl<W: Write + Send> SequentialWriter<W> {
    pub closed spec fn pred_chan(&self) -> Option<int> {
        match self.trigger { Some(r) => Some(rx_chan(&r)), None => None }
    }
    pub closed spec fn finish_chan(&self) -> int { tx_chan(&self.on_finish) }
}
impl<W: Write + Send> WriteSpecImpl for SequentialWriter<W> {
    open spec fn wchan(&self) -> int { self.finish_chan() }
}
pub broadcast axiom fn axiom_chan_of_seq_writer<W: Write + Send>(w: SequentialWriter<W>)
    ensures #[trigger] chan_of(w) == w.finish_chan();
pub broadcast axiom fn axiom_chan_of_box(w: Box<dyn Write>)
    ensures #[trigger] chan_of(w) == WriteSpec::wchan(&w);
/// a `&mut` writer passed by value to a callee: the callee writes through it, which preserves the identity
pub uninterp spec fn wchan_preserved<W>(w: W) -> bool;
pub broadcast axiom fn axiom_wchan_preserved_mut<'a, X>(w: &'a mut X)     // (no trait bound: bounded broadcast axioms do not instantiate for Box<dyn Write>)
    ensures #[trigger] wchan_preserved(w) ==> chan_of(mut_ref_future(w)) == chan_of(mut_ref_current(w));

//@impl src/util/sequential.rs "Iterator for SequentialWriterBuilder<W>" inherent
//@fn next ret r
//@assume
//@spec
    // O-NOSELFWAIT (client-side protocol obligation): a new writer is requested only when the previously
    // issued one has left this thread's hands
    requires old(self).last_issued() is Some ==> handed_off(old(self).last_issued()->Some_0),
    // proved in U-SEQ (O-CHAIN)
    ensures
        r is Some,
        r->Some_0.pred_chan() == old(self).last_issued(),
        final(self).last_issued() == Some(r->Some_0.finish_chan()),
//@endfn
//@endimpl
//@impl src/util/sequential.rs "Iterator for SequentialReaderBuilder<R>" inherent
//@fn next ret r
//@assume
//@spec
    ensures r is Some,
//@endfn
//@endimpl

pub assume_specification<T>[ core::mem::drop::<T> ](x: T)
    ensures handed_off(chan_of(x));

// ---- response.rs by contract ----
pub uninterp spec fn print_attempted(status: u16, no_body: bool, upgrade: bool, major: u8, minor: u8) -> bool;
pub uninterp spec fn flush_called() -> bool;
#[verifier::reject_recursive_types(R)]
//@item src/response.rs struct Response
impl<R> Response<R> {
    pub closed spec fn status(&self) -> u16 { self.status_code.0 }
    pub closed spec fn code(&self) -> StatusCode { self.status_code }
}
//@impl src/response.rs "Response<R> where R: Read,"
//@fn raw_print ret r
//@assume
//@spec
    ensures
        print_attempted(self.status(), do_not_send_body, upgrade is Some, http_version.0, http_version.1),
        handed_off(chan_of(writer)),     // `writer` is taken by value and dies inside
        wchan_preserved(writer),
//@endfn
//@fn with_status_code ret r
//@assume
//@spec
    ensures call_ensures(S::into, (code,), r.code()),
//@endfn
//@endimpl
//@impl src/response.rs "Response<io::Empty>"
//@fn new_empty ret r
//@assume
//@spec
    ensures r.status() == status_code.0,
//@endfn
//@endimpl
//@impl src/response.rs "Response<Cursor<Vec<u8>>>"
//@fn from_string ret r
//@assume
//@spec
    ensures r.status() == 200,
//@endfn
//@endimpl

// ---- request.rs by contract ----
//@item src/request.rs struct Request
//@item src/request.rs enum RequestCreationError
impl Request {
    pub closed spec fn answered(&self) -> bool { self.response_writer is None }
    pub closed spec fn writer_chan(&self) -> int { WriteSpec::wchan(&self.response_writer->Some_0) }
    pub closed spec fn hdrs(&self) -> Seq<Header> { self.headers@ }
    pub closed spec fn version(&self) -> HTTPVersion { self.http_version }
    pub closed spec fn meth(&self) -> Method { self.method }
    pub closed spec fn target(&self) -> Seq<char> { self.path@ }
    pub closed spec fn peer(&self) -> Option<std::net::SocketAddr> { self.remote_addr }
}
//@impl src/request.rs "Request"
//@fn headers ret r props C12,C02
//@spec
    ensures r@ == self.hdrs(),
//@endfn
//@fn http_version ret r props C10,C12,C02
//@spec
    ensures *r == self.version(),
//@endfn
//@fn method ret r props C02
//@spec
    ensures *r == self.meth(),       // O-ACCESSORS (C02): the accessors hand out the stored head, nothing is normalised
//@endfn
//@fn url ret r props C02
//@spec
    ensures r@ == self.target(),
//@endfn
//@fn remote_addr ret r props C02
//@spec
    ensures match r { Some(a) => self.peer() == Some(*a), None => self.peer() is None },
//@endfn
//@fn into_writer ret w
//@assume
//@spec
    requires !self.answered(),
    ensures WriteSpec::wchan(&w) == self.writer_chan(),     // the slot's writer (possibly wrapped in NotifyOnDrop, which forwards)
//@endfn
//@endimpl
//@include contracts/common_api_assumed.inc

//@fn src/request.rs new_request ret res
//@assume
//@spec
    // subset of the contract proved in U-NEWREQ, plus the by-value consumption of `writer` (A-DROP)
    ensures
        match res {
            Ok(rq) => !rq.answered() && rq.writer_chan() == writer.wchan() && rq.hdrs() == headers@ && rq.version() == version
                && rq.meth() == method && rq.target() == path@ && rq.peer() == remote_addr,
            Err(_) => handed_off(chan_of(writer)),
        },
//@endfn

// ---- the line parsers: contracts PROVED in U-PARSE on the real bodies (tools/linkcheck.py compares the texts) ----
//@include prelude/trim.rs
//@include prelude/split.rs
//@include contracts/parse_spec.inc
//@fn src/client.rs parse_request_line ret r
//@assume
//@spec
    ensures
        match r {
            // O-REQLINE (C02): method token, target and version are the first three space-separated parts of the line, as sent
            // (whatever follows a third space is ignored): the method by the (case-sensitive) token table, the target byte
            // for byte, the version by the version table
            Ok(t) => {
                let p0 = head_of(line@, ' ');
                let t0 = tail_of(line@, ' ');
                &&& t0 is Some && tail_of(t0->Some_0, ' ') is Some
                &&& method_of(t.0, p0)
                &&& t.1@ == head_of(t0->Some_0, ' ')
                &&& version_of(t.2, head_of(tail_of(t0->Some_0, ' ')->Some_0, ' '))
            },
            // a line is refused as malformed; (that it is refused ONLY for having fewer than three parts, a non-ASCII method
            // token or a version outside the table cannot be stated: string-literal patterns give this Verus no negative
            // information -- the positive half of the version table is K-VER)
            Err(e) => e is WrongRequestLine,
        },
//@endfn
//@impl src/common.rs "FromStr for Header"
//@fn from_str ret r
//@assume
//@spec
    ensures
        match r {
            // O-HDR-SPLIT (C02, C16): the name is the text before the FIRST colon, taken as it is -- it may not contain
            // whitespace anywhere (so neither ` Name: v`, `Na me: v` nor `Name : v` is accepted) --, the value is the rest
            // of the line without its surrounding whitespace: nothing else is removed, decoded or merged
            Ok(h) => tail_of(input@, ':') is Some && !has_whitespace(head_of(input@, ':'))
                && h.field.name() == head_of(input@, ':') && is_trimmed_of(h.value@, tail_of(input@, ':')->Some_0),
            // ... and a line is refused only for one of these reasons
            Err(_) => tail_of(input@, ':') is None || !str_is_ascii(input@) || has_whitespace(head_of(input@, ':')),
        },
//@endfn
//@endimpl
impl AsciiString {
    #[verifier::external_body]
    pub fn is_empty(&self) -> (r: bool) ensures r == (self@.len() == 0) { unimplemented!() }
}
//@include contracts/header_lookup.inc

/// C12: does this request end the connection?  (written from the property statement)
pub open spec fn conn_ends(v: HTTPVersion, hs: Seq<Header>) -> bool {
    if has_hdr(hs, "Connection"@) {
        let c = lower(first_value(hs, "Connection"@));
        seq_contains(c, "close"@) || seq_contains(c, "upgrade"@) || (v == HTTPVersion(1, 0) && !seq_contains(c, "keep-alive"@))
    } else {
        v == HTTPVersion(1, 0)
    }
}

//@item src/client.rs struct ClientConnection
//@item src/client.rs enum ReadError

impl ClientConnection {
    pub closed spec fn head_stream(&self) -> Seq<u8> { ReadSpec::stream(&self.next_header_source) }
    pub closed spec fn head_failed(&self) -> bool { ReadSpec::failed(&self.next_header_source) }
    pub closed spec fn sink_last(&self) -> Option<int> { self.sink.last_issued() }
    /// everything this connection thread has issued so far has left its hands
    pub closed spec fn prior_handed_off(&self) -> bool {
        self.sink.last_issued() is Some ==> handed_off(self.sink.last_issued()->Some_0)
    }
    // (no assumption on remote_addr: getpeername FAILS for a connection that was reset while it sat in the accept queue,
    //  and the bytes received before the reset are still readable -- replay c15_reset_before_accept)
    pub closed spec fn closing(&self) -> bool { self.no_more_requests }
    /// frame: everything but the header source is unchanged
    pub closed spec fn same_but_head(&self, o: &ClientConnection) -> bool {
        self.remote_addr == o.remote_addr && self.source == o.source && self.sink == o.sink
            && self.no_more_requests == o.no_more_requests && self.secure == o.secure
    }
}

pub open spec fn is_crlf_at(s: Seq<u8>, k: int) -> bool { 0 <= k && k + 1 < s.len() && s[k] == 13u8 && s[k + 1] == 10u8 }
pub open spec fn ascii_bytes(s: Seq<u8>) -> bool { forall|i: int| 0 <= i < s.len() ==> #[trigger] s[i] < 128 }

//@impl src/client.rs "ClientConnection"
//@fn read_next_line ret res props C13,C15,C10,C02
//@spec
    ensures
        // O-LINE: the line is exactly the bytes up to the first CRLF, which is consumed; the next read starts right after it
        res is Ok ==> exists|k: int| {
            &&& is_crlf_at(old(self).head_stream(), k)
            &&& forall|j: int| 0 <= j < k ==> !is_crlf_at(old(self).head_stream(), j)
            &&& ascii_to_bytes(res->Ok_0@) == old(self).head_stream().subrange(0, k)
            &&& final(self).head_stream() == old(self).head_stream().skip(k + 2)
        },
        final(self).same_but_head(old(self)),     // frame: nothing but the header source is touched
//@entry
        broadcast use axiom_bytes_resolved, axiom_same_handle_mut, axiom_bytes_of_vec;
        let ghost s0 = self.head_stream();
//@loop 1
            invariant
                buf@.len() <= s0.len(),
                buf@ == s0.subrange(0, buf@.len() as int),
                self.head_stream() == s0.skip(buf@.len() as int),
                prev_byte_was_cr <==> (buf@.len() > 0 && buf@[buf@.len() - 1] == 13u8),
                forall|j: int| 0 <= j && j + 1 < buf@.len() ==> !is_crlf_at(s0, j),
                s0 == old(self).head_stream(),
                self.same_but_head(old(self)),
//@loopentry 1
            broadcast use axiom_bytes_resolved, axiom_same_handle_mut, axiom_bytes_of_vec;   // (broadcast use does not reach into loop bodies)
            let ghost s_before = self.head_stream();
//@after 1 let byte = self.next_header_source
            proof {
                assert(byte is Some && byte->Some_0 is Ok ==> s_before.len() > 0 && byte->Some_0->Ok_0 == s_before[0] && self.head_stream() == s_before.skip(1));
            }
//@before 1 buf.pop()
                proof {
                    let k = buf@.len() - 1;
                    assert(is_crlf_at(s0, k));
                    assert(s0.skip(buf@.len() as int).skip(1) =~= s0.skip(k + 2));
                    assert(buf@.subrange(0, k) =~= s0.subrange(0, k));
                }
//@before 1 buf.push(byte)
            proof {
                assert(s0.skip(buf@.len() as int).skip(1) =~= s0.skip(buf@.len() as int + 1));
                assert(buf@.push(byte) =~= s0.subrange(0, buf@.len() as int + 1));
            }
//@endfn

//@fn read ret res props C01,C02,C10,C14,C15,C16
//@spec
    requires old(self).prior_handed_off(),
    ensures
        final(self).closing() == old(self).closing(),
        match res {
            // exactly one writer is taken for a request that is delivered, and it is the request's own
            Ok(rq) => final(self).sink_last() == Some(rq.writer_chan()) && !rq.answered(),
            // on every error path the writer taken for the request (if any) has died inside new_request
            Err(e) => final(self).prior_handed_off(),
        },
//@entry
        broadcast use axiom_chan_of_seq_writer;
        // ghost (C02): the request line and the header lines as they came off the wire (CRLF removed)
        let ghost mut line0: Seq<char> = Seq::empty();
        let ghost mut hlines: Seq<Seq<char>> = Seq::empty();
//@after 1 self . read_next_line ( )
                proof { line0 = line@; }
//@before 1 loop
                // ghost: number of non-empty header lines read so far
                let ghost mut nlines: int = 0;
//@loop 1
                    invariant
                        self.prior_handed_off(),
                        self.closing() == old(self).closing(), self.sink_last() == old(self).sink_last(),
                        self.remote_addr == old(self).remote_addr,
                        // O-NOSKIP (C10, C16): every non-empty line of the head has become exactly one header (or ended the
                        // request with an error): no line is skipped, none is entered twice
                        headers@.len() == nlines,   // [C10,C16]
                        // O-HDR-FIDELITY (C02): the list built so far is, in order and one for one, what the non-empty
                        // lines read so far say
                        hlines.len() == headers@.len(),   // [C02]
                        forall|i: int| 0 <= i < headers@.len() ==> hdr_of_line(#[trigger] headers@[i], hlines[i]),   // [C02,C16]
//@after 2 self . read_next_line ( )
                    let ghost raw_line = line@;   // the head line as it came off the wire (CRLF removed)
//@before 1 break
                        // O-HEADEND (C16): the head ends at an EMPTY line only.  A line of spaces/tabs is an (empty) obsolete
                        // fold, not the end of the head: it must go to the header parser, which refuses it
                        proof { assert(raw_line.len() == 0); }   // [C16]
//@after? 1 if line.is_empty()
                    proof { nlines = nlines + 1; }
//@after? 1 headers.push
                    // O-LINE-WS (C16): what is parsed as a header is the line itself, from its first byte (only trailing
                    // whitespace may have been removed): a line that begins with whitespace (obsolete folding) reaches the
                    // header parser as such, whose name rule (O-NAME-WS, U-PARSE) refuses it
                    proof {   // [C16,C02]
                        let last = headers@.last();
                        assert(headers@.len() > 0);
                        assert(hdr_of_line(last, raw_line));
                        hlines = hlines.push(raw_line);
                    }
//@closure ~RequestCreationError::CreationIoError~ |e: RequestCreationError| -> (re: ReadError) ensures true
//@atexit
        // O-HEAD-FIDELITY (C02): the request that is delivered reports the method token, the target and the version that the
        // request line carries (its first three space-separated parts, surrounding whitespace of the line aside), and the
        // header list that the head lines carry, in order and one for one
        proof {   // [C02]
            assert($r is Ok ==> exists|rl: Seq<char>| #[trigger] is_trimmed_of(rl, line0) && tail_of(rl, ' ') is Some && tail_of(tail_of(rl, ' ')->Some_0, ' ') is Some
                && method_of($r->Ok_0.meth(), head_of(rl, ' '))
                && $r->Ok_0.target() == head_of(tail_of(rl, ' ')->Some_0, ' ')
                && version_of($r->Ok_0.version(), head_of(tail_of(tail_of(rl, ' ')->Some_0, ' ')->Some_0, ' ')));
            // ... and the peer address that was stored when the connection was accepted
            assert($r is Ok ==> self.remote_addr is Ok && $r->Ok_0.peer() == self.remote_addr->Ok_0);
            assert($r is Ok ==> $r->Ok_0.hdrs().len() == hlines.len()
                && forall|i: int| 0 <= i < hlines.len() ==> hdr_of_line(#[trigger] $r->Ok_0.hdrs()[i], hlines[i]));
        }
//@endfn
//@endimpl

//@impl src/client.rs "Iterator for ClientConnection" inherent
//@fn next ret res props C10,C12,C01,C14,C15
//@spec
    requires old(self).prior_handed_off(),    // A-APP (everything issued earlier went to the application)
    ensures
        // C12: after a request that ended the connection nothing more is read or interpreted
        old(self).closing() ==> res is None && *final(self) == *old(self),
        match res {
            Some(rq) => {
                // C10: a version above 1.1 is never delivered
                &&& lex_cmp((rq.version().0, rq.version().1), (1, 1)) != Ordering::Greater
            },
            None => true,
        },
//@bind err ~ReadIoError\((?:ref )?([a-z]\w*)\)\) if~
//@entry
        broadcast use axiom_chan_of_seq_writer, axiom_chan_of_box, axiom_wchan_preserved_mut, axiom_find_post, axiom_contains_str, lemma_as_ref_index, lemma_as_ref_index_fwd, axiom_into_reflexive;
//@loop 1
            invariant self.prior_handed_off(), !self.closing(), !old(self).closing(),
//@loopentry 1
            broadcast use axiom_chan_of_seq_writer, axiom_chan_of_box, axiom_wchan_preserved_mut, axiom_find_post, axiom_contains_str, lemma_as_ref_index, lemma_as_ref_index_fwd, axiom_into_reflexive;
//@before? 1 return None @after Err(ReadError::WrongRequestLine)
                    // O-CLASSIFY (C10): malformed request line -> 400 as HTTP/1.1, with body allowed, then close
                    proof { assert(print_attempted(400, false, false, 1, 1)); }
//@before? 1 return None @after Err(ReadError::WrongHeader(ver))
                    // header line without colon / not a header -> 400 in the request's version, then close
                    proof { assert(print_attempted(400, false, false, ver.0, ver.1)); }
//@before? 1 return None @after ErrorKind::TimedOut
                    // read timeout -> 408, then close
                    proof { assert(print_attempted(408, false, false, 1, 1)); }
                    // O-SILENT (C10, C15): ... and ONLY a timeout: every other I/O error while reading a head (the client went
                    // away, reset, bytes that are not ASCII) ends the connection without anything being written to it
                    proof { assert(io_error_kind(&$err) == ErrorKind::TimedOut); }   // [C10,C15]
//@before? 1 return None @after Err(ReadError::ExpectationFailed(ver))
                    // unsupported Expect value -> 417 (head only), then close
                    proof { assert(print_attempted(417, true, false, ver.0, ver.1)); }
//@before 1 continue
                // O-505 (C10): a version above 1.1 is answered 505 as HTTP/1.1 (with its explanatory body) on the rejected
                // request's own writer and the answer is flushed before the next head is read -- nothing else pushes it
                // out while the connection stays open (raw_print does not flush).  flush_called() is stateless: it shows a
                // flush on this path, not its position relative to the print
                proof { assert(print_attempted(505, false, false, 1, 1) && flush_called()); }   // [C10]
//@after 1 let lowercase
            proof {
                let name = "Connection"@;
                let hs = rq.hdrs();
                if exists|i: int| 0 <= i < hs.len() && hdr_is(#[trigger] hs[i], name) {
                    let i = choose|i: int| 0 <= i < hs.len() && hdr_is(#[trigger] hs[i], name)
                        && lowercase is Some && lowercase->Some_0@ == lower(hs[i].value@)
                        && forall|j: int| 0 <= j < i ==> !hdr_is(#[trigger] hs[j], name);
                    lemma_first(hs, name, i);
                } else {
                    assert(forall|j: int| 0 <= j < hs.len() ==> !hdr_is(#[trigger] hs[j], name));
                    lemma_none(hs, name);
                    assert(lowercase is None);
                }
            }
//@before 1 return Some(rq)
            // Stated as assertions on the state at the return point rather than as postconditions over final(self):
            // this Verus loses the link between `*self` and `final(self)` after a `match` whose guarded arms
            // assign to a field of `*self` (minimal reproduction kept in notes/verus_match_guard_final.rs.txt).
            proof {
                // O-RAWLAST (C09): a request that was given the raw connection reader (no length or chunk framing in front of
                // it, nothing to drain when it is dropped) is the last one read from this connection: whatever the application
                // leaves unread of those bytes is never parsed as a request
                assert(f_upgrade(rq.hdrs()) ==> self.closing());   // [C09,C12]
            }
            proof {
                // O-PERSIST (C12): the persistence decision, from the property statement
                assert(self.closing() == conn_ends(rq.version(), rq.hdrs()));   // [C12]
                // C01: the delivered request owns the writer issued last, and it is unanswered
                assert(self.sink_last() == Some(rq.writer_chan()) && !rq.answered());   // [C01]
            }
//@closure ~equiv("Connection")~ |h: &&Header| -> (b: bool) ensures b == hdr_is(**h, "Connection"@)
//@closure ~h.value.as_str()$~ |h: &Header| -> (o: &str) ensures o@ == h.value@
//@closure ~|h| h.to_ascii_lowercase()$~ |h: &str| -> (o: String) ensures o@ == lower(h@)
//@endfn
//@endimpl

// ---- code this unit's claims rely on that is outside the verifier: pinned to the reference tree (rule ix of ./check) ----
//@watch src/client.rs "impl ClientConnection" new
} // verus!
fn main() {}
