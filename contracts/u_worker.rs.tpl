// UNIT U-WORKER: util/task_pool.rs  the worker thread = the closure handed to thread::spawn by TaskPool::add_thread,
//   and the RAII guard of the two counters   (DESIGN 5 / C08: the worker side of the dispatch invariant)
#![feature(allocator_api)]
#![allow(unused_imports, dead_code, unused_variables, unused_mut)]
use vstd::prelude::*;
use std::collections::VecDeque;
use std::sync::atomic::{AtomicUsize, Ordering};
use std::sync::{Arc, Condvar, Mutex, MutexGuard};
use std::time::{Duration, Instant};
use vstd::std_specs::cmp::PartialOrdSpec;
use vstd::std_specs::ops::SubSpec;

verus! {
//@include prelude/sync.rs
//@include prelude/vecdeque.rs
//@include prelude/option.rs

// blocking is a capability (as in U-QUEUE); a worker may block
pub uninterp spec fn may_block() -> bool;
pub assume_specification<'a, T>[ Condvar::wait::<T> ](c: &Condvar, g: MutexGuard<'a, T>) -> (r: std::sync::LockResult<std::sync::MutexGuard<'a, T>>)
    requires may_block(),
    ensures r is Ok, guard_of(&r->Ok_0) == guard_of(&g), acq(&r->Ok_0) == gval(&r->Ok_0);
//@include prelude/time.rs

// ---- the counters: identity, effect witnesses of the two atomic updates, the ghost maps of rewrite R29 ----
pub uninterp spec fn atomic_id(a: &AtomicUsize) -> int;
pub uninterp spec fn added(id: int, n: int) -> bool;
pub uninterp spec fn subbed(id: int, n: int) -> bool;
// R32 wrappers (same std call inside)
#[verifier::external_body]
pub fn verif_fetch_add(a: &AtomicUsize, v: usize, o: Ordering) -> (r: usize)
    ensures added(atomic_id(a), v as int)
{ a.fetch_add(v, o) }
#[verifier::external_body]
pub fn verif_fetch_sub(a: &AtomicUsize, v: usize, o: Ordering) -> (r: usize)
    ensures subbed(atomic_id(a), v as int)
{ a.fetch_sub(v, o) }
pub open spec fn verif_get(m: Map<int, int>, k: int) -> int { if m.dom().contains(k) { m[k] } else { 0 } }
pub open spec fn verif_bump(m: Map<int, int>, k: int, d: int) -> Map<int, int> { m.insert(k, verif_get(m, k) + d) }
// R7: the counters are only written while the `todo` lock is held, so under the lock a load returns the protected value
pub uninterp spec fn protected_count(a: &AtomicUsize) -> usize;
#[verifier::external_body]
pub fn verif_protected_load(a: &AtomicUsize, o: Ordering) -> (r: usize)
    ensures r == protected_count(a)
{ a.load(o) }

// R2 / R30: the pool never looks inside a task; it only runs it
#[verifier::external_body]
pub struct VerifTask(Box<dyn FnMut() + Send>);
impl VerifTask {
    #[verifier::external_body]
    pub fn verif_run(&mut self) { (self.0)() }
}

//@item src/util/task_pool.rs struct Sharing
//@item src/util/task_pool.rs static MIN_THREADS
//@item src/util/task_pool.rs struct Registration
impl<'a> Registration<'a> {
    pub closed spec fn counter(&self) -> int { atomic_id(self.nb) }
}

//@impl src/util/task_pool.rs "Registration<'a>"
//@fn new ret r props C08
//@spec
    // O-GUARD: the guard adds one to its counter when it is made ...
    ensures r.counter() == atomic_id(nb), added(atomic_id(nb), 1),
//@endfn
//@endimpl
//@impl src/util/task_pool.rs "Drop for Registration<'a>" inherent required
//@fn drop as drop_body props C08
//@spec
    // ... and takes it back when it is dropped (RAII: no path can leak a registration)
    ensures subbed(old(self).counter(), 1),
//@endfn
//@endimpl

/// Monitor invariant of the pool (holds whenever the `todo` lock is free): every queued connection has its own
/// registered idle worker (the same invariant TaskPool::spawn re-establishes, U-POOL)
pub open spec fn pool_inv_n(queued: int, waiting: int) -> bool { queued <= waiting }

//@lift src/util/task_pool.rs add_thread ~Registration::new(&sharing.active_tasks)~ src/util/task_pool.rs#worker fn worker(sharing: Arc<Sharing>, initial_fn: Option<VerifTask>)
//@fn src/util/task_pool.rs#worker worker props C08
//@guards Registration::new
//@tasks f task
//@entry
            proof { assume(may_block()); }
            let tracked mut verif_clk = verif_clock_start();
            // ghost model (R29): verif_cnt = the counters' values, verif_mine = this thread's own contribution to them
            let ghost mut verif_cnt: Map<int, int> = Map::empty();
            let ghost mut verif_mine: Map<int, int> = Map::empty();
            let ghost wid = atomic_id(&sharing.waiting_tasks);
            let ghost aid = atomic_id(&sharing.active_tasks);
            proof { assume(wid != aid); }    // two fields of one struct are two objects
//@loop 1
                invariant may_block(), wid != aid,
                    // O-WORKER-REG (C08): between tasks the worker is counted as active once and as idle not at all
                    verif_get(verif_mine, aid) == 1, verif_get(verif_mine, wid) == 0,   // [C08]
//@after 1 lock ( ) . unwrap ( )
                    // monitor: the invariant holds when the lock is acquired (A-MUTEX + every critical section preserves it:
                    // this function and TaskPool::spawn); the counter is at least this thread's own contribution
                    let ghost w_acq: int = arbitrary();
                    proof {
                        verif_cnt = verif_cnt.insert(wid, w_acq);
                        assume(pool_inv_n(gval(&todo)@.len() as int, verif_get(verif_cnt, wid)) && verif_get(verif_cnt, wid) >= verif_get(verif_mine, wid));
                    }
//@loop 2
                        invariant may_block(), wid != aid,
                            // at the head of the wait loop the worker is not (or no longer) registered as idle: the guard of the
                            // previous round has been dropped.  (An invariant of THIS implementation -- one guard per wait; an
                            // implementation that stays registered across wake-ups would need a different one.)
                            verif_get(verif_mine, aid) == 1, verif_get(verif_mine, wid) == 0,   // [C08]
                            // inside the critical section: at most the task this worker was woken for is not yet taken
                            gval(&todo)@.len() <= verif_get(verif_cnt, wid) + 1, verif_get(verif_cnt, wid) >= 0,
//@before 1 . wait (
                                // O-WORKER-BLOCK (C08): the worker blocks only registered as idle exactly once, with the queue found
                                // empty under the lock, and the lock is released with the invariant in place
                                proof { assert(verif_get(verif_mine, wid) == 1 && gval(&todo)@.len() == 0
                                    && pool_inv_n(gval(&todo)@.len() as int, verif_get(verif_cnt, wid))); }   // [C08]
//@after 1 . wait (
                                let ghost w_acq1: int = arbitrary();
                                proof {
                                    verif_cnt = verif_cnt.insert(wid, w_acq1);
                                    assume(pool_inv_n(gval(&todo)@.len() as int, verif_get(verif_cnt, wid)) && verif_get(verif_cnt, wid) >= verif_get(verif_mine, wid));
                                }
//@before 1 . wait_timeout (
                                proof { assert(verif_get(verif_mine, wid) == 1 && gval(&todo)@.len() == 0
                                    && pool_inv_n(gval(&todo)@.len() as int, verif_get(verif_cnt, wid))); }   // [C08]
//@after 1 todo = new_lock
                                let ghost w_acq2: int = arbitrary();
                                proof {
                                    verif_cnt = verif_cnt.insert(wid, w_acq2);
                                    assume(pool_inv_n(gval(&todo)@.len() as int, verif_get(verif_cnt, wid)) && verif_get(verif_cnt, wid) >= verif_get(verif_mine, wid));
                                }
//@before 1 return
                                // O-WORKER-RETIRE (C08): a worker retires only with the queue empty, deregistered from both counters
                                // (R29 has written out the drops of its two guards in front of this), the invariant in place
                                proof { assert(gval(&todo)@.len() == 0 && verif_get(verif_mine, wid) == 0 && verif_get(verif_mine, aid) == 0
                                    && pool_inv_n(gval(&todo)@.len() as int, verif_get(verif_cnt, wid))); }   // [C08]
//@blocktail 1 let mut todo
                    // O-WORKER-TAKE (C08): leaving the critical section with a task: not counted as idle, the invariant in place
                    proof { assert(verif_get(verif_mine, wid) == 0 && pool_inv_n(gval(&todo)@.len() as int, verif_get(verif_cnt, wid))); }   // [C08]
//@endfn

} // verus!
fn main() {}
