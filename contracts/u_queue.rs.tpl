// UNIT U-QUEUE: util/messages_queue.rs + the receive functions of lib.rs  (DESIGN 5 / C07, C17)
#![feature(allocator_api)]
#![allow(unused_imports, dead_code, unused_variables, unused_mut)]
use vstd::prelude::*;
use std::collections::VecDeque;
use std::sync::{Arc, Condvar, Mutex, MutexGuard};
use std::sync::atomic::AtomicBool;
use std::time::{Duration, Instant};
use std::io::Error as IoError;
use std::io::ErrorKind as IoErrorKind;
use std::io::Result as IoResult;

verus! {
//@include prelude/io_error.rs
//@include prelude/sync.rs
//@include prelude/vecdeque.rs
//@include prelude/option.rs

pub assume_specification<T: ?Sized>[ Mutex::<T>::lock ](m: &Mutex<T>) -> (r: std::sync::LockResult<std::sync::MutexGuard<'_, T>>)
    ensures r is Ok, guard_of(&r->Ok_0) == m;

// effect witness (DESIGN 3.4)
pub uninterp spec fn notified(c: &Condvar) -> bool;
pub assume_specification[ Condvar::notify_one ](c: &Condvar)
    ensures notified(c);

// Blocking is a capability: only functions that are allowed to block are given may_block() (C17: try_recv never blocks)
pub uninterp spec fn may_block() -> bool;
pub assume_specification<'a, T>[ Condvar::wait::<T> ](c: &Condvar, g: MutexGuard<'a, T>) -> (r: std::sync::LockResult<std::sync::MutexGuard<'a, T>>)
    requires may_block(),
    ensures r is Ok, guard_of(&r->Ok_0) == guard_of(&g);   // the protected value after the wait is arbitrary: other threads ran

#[verifier::external_type_specification]
#[verifier::external_body]
pub struct ExWaitTimeoutResult(std::sync::WaitTimeoutResult);
#[verifier::external_type_specification]
#[verifier::external_body]
pub struct ExInstant(std::time::Instant);
pub assume_specification<'a, T>[ Condvar::wait_timeout::<T> ](c: &Condvar, g: MutexGuard<'a, T>, d: Duration) -> (r: std::sync::LockResult<(std::sync::MutexGuard<'a, T>, std::sync::WaitTimeoutResult)>)
    requires may_block(),
    ensures r is Ok, guard_of(&(r->Ok_0).0) == guard_of(&g), wait_budget(&(r->Ok_0).1) == nanos(d);
// ---- time (C17, ASSUMED from the std documentation): nanos(d) = length of a Duration in nanoseconds;
// waited(w) = how long the wait that produced this WaitTimeoutResult really lasted
pub uninterp spec fn waited(w: &std::sync::WaitTimeoutResult) -> nat;
pub uninterp spec fn wait_budget(w: &std::sync::WaitTimeoutResult) -> nat;
pub assume_specification[ std::sync::WaitTimeoutResult::timed_out ](w: &std::sync::WaitTimeoutResult) -> (r: bool)
    ensures r ==> waited(w) >= wait_budget(w);       // "true if the wait was known to have timed out": the full budget has elapsed
pub assume_specification[ Duration::from_millis ](ms: u64) -> (r: Duration)
    ensures nanos(r) == ms * 1_000_000;
pub assume_specification[ Duration::as_secs ](d: &Duration) -> (r: u64)
    ensures r == nanos(*d) / 1_000_000_000;
pub assume_specification[ Duration::subsec_nanos ](d: &Duration) -> (r: u32)
    ensures r == nanos(*d) % 1_000_000_000;
pub assume_specification[ Instant::now ]() -> (r: Instant);
pub assume_specification[ Instant::elapsed ](i: &Instant) -> (r: Duration);

// R18 wrappers (same body).  nanos(d) is the length of a Duration.
pub uninterp spec fn nanos(d: Duration) -> nat;
#[verifier::external_body]
pub fn verif_duration_gt(a: &Duration, b: &Duration) -> (r: bool)
    ensures r == (nanos(*a) > nanos(*b))
{ a > b }
#[verifier::external_body]
pub fn verif_duration_sub(a: Duration, b: Duration) -> (r: Duration)
    requires nanos(a) >= nanos(b)      // Duration subtraction panics on underflow
    ensures nanos(r) == nanos(a) - nanos(b)
{ a - b }

#[verifier::external_body]
pub fn verif_io_error(kind: IoErrorKind, msg: &str) -> (r: IoError)
    ensures io_error_kind(&r) == kind
{ IoError::new(kind, msg) }

//@item src/util/messages_queue.rs enum Control
#[verifier::reject_recursive_types(T)]
//@item src/util/messages_queue.rs struct MessagesQueue

impl<T: Send> MessagesQueue<T> {
    pub closed spec fn cv(&self) -> &Condvar { &self.condvar }
}

//@include lemmas/l_queue.rs

// Witnesses of atomic steps.  They can only be introduced through the two axioms below, whose
// premises are the step relations of L-QUEUE; they are never eliminated in exec code.
pub uninterp spec fn enqueued_elem<T: Send>(q: &MessagesQueue<T>, v: T) -> bool;
pub uninterp spec fn enqueued_unblock<T: Send>(q: &MessagesQueue<T>) -> bool;
pub uninterp spec fn received<T: Send>(q: &MessagesQueue<T>, r: Option<T>) -> bool;

spec fn recv_rel<T>(q0: Seq<Control<T>>, q1: Seq<Control<T>>, r: Option<T>, may_miss: bool) -> bool {
    ||| (r is Some && q_step(q0, QEv::Take(Control::Elem(r->Some_0)), q1))     // a request is removed and handed to this caller
    ||| (r is None && q_step(q0, QEv::Take(Control::<T>::Unblock), q1))          // one Unblock token is consumed
    ||| (r is None && may_miss && q_step(q0, QEv::<T>::Miss, q1))                // non-blocking / timed receive: nothing changes
}
#[verifier::external_body]
proof fn axiom_enqueue_elem<T: Send>(q: &MessagesQueue<T>, q0: Seq<Control<T>>, q1: Seq<Control<T>>, v: T)
    requires q_step(q0, QEv::Push(Control::Elem(v)), q1)
    ensures enqueued_elem(q, v)
{}
#[verifier::external_body]
proof fn axiom_enqueue_unblock<T: Send>(q: &MessagesQueue<T>, q0: Seq<Control<T>>, q1: Seq<Control<T>>)
    requires q_step(q0, QEv::Push(Control::<T>::Unblock), q1)
    ensures enqueued_unblock(q)
{}
#[verifier::external_body]
proof fn axiom_receive_step<T: Send>(q: &MessagesQueue<T>, q0: Seq<Control<T>>, q1: Seq<Control<T>>, r: Option<T>, may_miss: bool)
    requires recv_rel(q0, q1, r, may_miss)
    ensures received(q, r)
{}

//@impl src/util/messages_queue.rs "MessagesQueue<T>"
//@fn push props C07,C17
//@spec
    ensures
        notified(self.cv()),   // every enqueue path notifies (while holding the lock)
        enqueued_elem(self, value),
//@after 1 lock ( ) . unwrap ( )
        let ghost q0 = gval(&queue)@;
//@exit
        // O-PUSH: atomic step  q' == q ++ [Elem(value)]  (nothing removed, nothing reordered)
        proof { axiom_enqueue_elem(self, q0, gval(&queue)@, value); }
//@endfn

//@fn unblock props C17,C07
//@spec
    ensures notified(self.cv()), enqueued_unblock(self),
//@after 1 lock ( ) . unwrap ( )
        let ghost q0 = gval(&queue)@;
//@exit
        // O-UNBLOCK: exactly one token is appended; queued requests are neither discarded, duplicated nor reordered
        proof { axiom_enqueue_unblock(self, q0, gval(&queue)@); }
//@endfn

//@fn pop ret res props C07,C17
//@spec
    ensures received(self, res),
//@entry
        proof { assume(may_block()); }   // recv() is a blocking receive
//@loop 1
            invariant may_block(),
//@loopentry 1
            let ghost q0 = gval(&queue)@;
//@atexit
                    // O-POP: atomic step: the head is removed and handed to exactly this caller; an Unblock token is consumed
                    // by exactly one receive call, which returns empty-handed; a blocking receive never returns otherwise
                    proof { axiom_receive_step(self, q0, gval(&queue)@, $r, false); }
//@before? 1 queue = self . condvar . wait
            // it blocks only after having inspected the queue, under the lock, and found it empty
            proof { assert(gval(&queue)@ == q0 && q0.len() == 0); }
//@endfn

//@fn try_pop ret res props C07,C17
//@spec
    ensures received(self, res),     // and no may_block(): it cannot call Condvar::wait*
//@after 1 lock ( ) . unwrap ( )
        let ghost q0 = gval(&queue)@;
//@atexit
        // O-TRYPOP: one atomic step: at most the head is removed, a request goes to exactly this caller, an Unblock
        // token makes exactly this call come back empty-handed
        proof { axiom_receive_step(self, q0, gval(&queue)@, $r, true); }
//@endfn

//@fn pop_timeout ret res props C07,C17
//@spec
    ensures received(self, res),
//@entry
        proof { assume(may_block()); }   // recv_timeout() may block (for a bounded time)
        // ghost clock bookkeeping (C17 timing): `slept` = sum of the measured sleep times so far
        let ghost mut slept: nat = 0;
//@loop 1
            invariant may_block(),
                // O-TIME-BOOK: `duration` is what is left of the timeout after the measured sleeps (saturating at 0) ...
                nanos(duration) == (if nanos(timeout) >= slept { nanos(timeout) - slept } else { 0 }) as nat,
                // ... so every wait begins while less than `timeout` has been slept (upper bound: the measured sleeps before
                // the last wait add up to less than `timeout`, and the last wait is itself bounded by `timeout`:
                // at most 2 x timeout plus scheduling latency)
                slept == 0 || slept + 1_000_000 <= nanos(timeout),
//@loopentry 1
            let ghost q0 = gval(&queue)@;
//@atexit
                    proof { axiom_receive_step(self, q0, gval(&queue)@, $r, true); }
//@before? 1 let now
            proof { assert(gval(&queue)@ == q0 && q0.len() == 0); }
//@after? 1 queue = _queue
            let ghost q0 = gval(&queue)@;   // after the wait the protected value is whatever the other threads left
//@after? 1 let sleep_time = now.elapsed()
            proof { slept = slept + nanos(sleep_time); }
//@before? 3 return
                // O-TIME-LOWER (C17): an empty-handed return that is not caused by an Unblock token happens only after a wait
                // that ran its full budget (= timeout), or after the measured sleeps add up to more than timeout - 1 ms
                proof { assert((waited(&result) >= nanos(timeout)) || (slept + 1_000_000 > nanos(timeout))); }   // [C17]
//@endfn
//@endimpl

// ------------------------------------------------------------------ lib.rs: the receive calls
// opaque stand-ins for types this unit never looks into
#[verifier::external_body]
pub struct Request { _opaque: u8 }
#[verifier::external_body]
pub struct ListenAddr { _opaque: u8 }

//@item src/lib.rs enum Message
//@item src/lib.rs struct Server

impl Server {
    pub closed spec fn got_request(&self, rq: Request) -> bool { received(&*self.messages, Some(Message::NewRequest(rq))) }
    pub closed spec fn got_error(&self, e: IoError) -> bool { received(&*self.messages, Some(Message::Error(e))) }
    pub closed spec fn got_nothing(&self) -> bool { received(&*self.messages, None::<Message>) }
    pub closed spec fn unblock_queued(&self) -> bool { enqueued_unblock(&*self.messages) }
}

//@impl src/lib.rs "Server"
//@fn recv ret res props C07,C17
//@spec
    ensures
        // O-RECV: the outcome of exactly one receive step, mapped 1:1; an Unblock token surfaces as an error
        match res {
            Ok(rq) => self.got_request(rq),
            Err(e) => self.got_error(e) || (self.got_nothing() && io_error_kind(&e) == IoErrorKind::Other),
        },
//@endfn
//@fn recv_timeout ret res props C07,C17
//@spec
    ensures
        match res {
            Ok(Some(rq)) => self.got_request(rq),
            Ok(None) => self.got_nothing(),
            Err(e) => self.got_error(e),
        },
//@endfn
//@fn try_recv ret res props C07,C17
//@spec
    ensures
        match res {
            Ok(Some(rq)) => self.got_request(rq),
            Ok(None) => self.got_nothing(),
            Err(e) => self.got_error(e),
        },
//@endfn
//@fn unblock props C17
//@spec
    ensures self.unblock_queued(),
//@endfn
//@endimpl

} // verus!
fn main() {}
