// UNIT U-QUEUE: util/messages_queue.rs + the receive functions of lib.rs  (DESIGN 5 / C07, C17)
#![feature(allocator_api)]
#![allow(unused_imports, dead_code, unused_variables, unused_mut)]
use vstd::prelude::*;
use std::collections::VecDeque;
use std::sync::{Arc, Condvar, Mutex, MutexGuard};
use std::sync::atomic::AtomicBool;
use std::time::{Duration, Instant};
use vstd::std_specs::cmp::PartialOrdSpec;
use vstd::std_specs::ops::SubSpec;
use std::io::Error as IoError;
use std::io::ErrorKind as IoErrorKind;
use std::io::Result as IoResult;

verus! {
//@include prelude/io_error.rs
//@include prelude/sync.rs
//@include prelude/vecdeque.rs
//@include prelude/option.rs


// effect witness (DESIGN 3.4)
pub uninterp spec fn notified(c: &Condvar) -> bool;
pub assume_specification[ Condvar::notify_one ](c: &Condvar)
    ensures notified(c);

// Blocking is a capability: only functions that are allowed to block are given may_block() (C17: try_recv never blocks)
pub uninterp spec fn may_block() -> bool;
pub assume_specification<'a, T>[ Condvar::wait::<T> ](c: &Condvar, g: MutexGuard<'a, T>) -> (r: std::sync::LockResult<std::sync::MutexGuard<'a, T>>)
    requires may_block(),
    ensures r is Ok, guard_of(&r->Ok_0) == guard_of(&g), acq(&r->Ok_0) == gval(&r->Ok_0);   // the protected value after the wait is arbitrary: other threads ran

//@include prelude/time.rs

#[verifier::external_body]
pub fn verif_io_error(kind: IoErrorKind, msg: &str) -> (r: IoError)
    ensures io_error_kind(&r) == kind
{ IoError::new(kind, msg) }

//@item src/util/messages_queue.rs enum Control
#[verifier::reject_recursive_types(T)]
//@item src/util/messages_queue.rs struct MessagesQueue

impl<T: Send> MessagesQueue<T> {
    pub closed spec fn cv(&self) -> &Condvar { &self.condvar }
}

//@include lemmas/l_queue.rs

// Witnesses of atomic steps.  They can only be introduced through the two axioms below, whose
// premises are the step relations of L-QUEUE; they are never eliminated in exec code.
pub uninterp spec fn enqueued_elem<T: Send>(q: &MessagesQueue<T>, v: T) -> bool;
pub uninterp spec fn enqueued_unblock<T: Send>(q: &MessagesQueue<T>) -> bool;
pub uninterp spec fn received<T: Send>(q: &MessagesQueue<T>, r: Option<T>) -> bool;

spec fn recv_rel<T>(q0: Seq<Control<T>>, q1: Seq<Control<T>>, r: Option<T>, may_miss: bool) -> bool {
    ||| (r is Some && q_step(q0, QEv::Take(Control::Elem(r->Some_0)), q1))     // a request is removed and handed to this caller
    ||| (r is None && q_step(q0, QEv::Take(Control::<T>::Unblock), q1))          // one Unblock token is consumed
    ||| (r is None && may_miss && q_step(q0, QEv::<T>::Miss, q1))                // non-blocking / timed receive: nothing changes
}
#[verifier::external_body]
proof fn axiom_enqueue_elem<T: Send>(q: &MessagesQueue<T>, q0: Seq<Control<T>>, q1: Seq<Control<T>>, v: T)
    requires q_step(q0, QEv::Push(Control::Elem(v)), q1)
    ensures enqueued_elem(q, v)
{}
#[verifier::external_body]
proof fn axiom_enqueue_unblock<T: Send>(q: &MessagesQueue<T>, q0: Seq<Control<T>>, q1: Seq<Control<T>>)
    requires q_step(q0, QEv::Push(Control::<T>::Unblock), q1)
    ensures enqueued_unblock(q)
{}
#[verifier::external_body]
proof fn axiom_receive_step<T: Send>(q: &MessagesQueue<T>, q0: Seq<Control<T>>, q1: Seq<Control<T>>, r: Option<T>, may_miss: bool)
    requires recv_rel(q0, q1, r, may_miss)
    ensures received(q, r)
{}

//@impl src/util/messages_queue.rs "MessagesQueue<T>"
//@fn push props C07,C17
//@spec
    ensures
        notified(self.cv()),   // every enqueue path notifies (while holding the lock)
        enqueued_elem(self, value),
//@exit
        // O-PUSH: the critical section is the atomic step  q' == q ++ [Elem(value)]  (nothing removed, nothing reordered);
        // acq(&queue) = the protected value when the lock was acquired, gval(&queue) = the value now
        proof { axiom_enqueue_elem(self, acq(&queue)@, gval(&queue)@, value); }
//@endfn

//@fn unblock props C17,C07
//@spec
    ensures notified(self.cv()), enqueued_unblock(self),
//@exit
        // O-UNBLOCK: exactly one token is appended; queued requests are neither discarded, duplicated nor reordered
        proof { axiom_enqueue_unblock(self, acq(&queue)@, gval(&queue)@); }
//@endfn

//@fn pop ret res props C07,C17
//@spec
    ensures received(self, res),
//@entry
        proof { assume(may_block()); }   // recv() is a blocking receive
//@loop 1
            invariant may_block(),
                // at the loop head nothing has been changed since the lock was last (re)acquired
                gval(&queue)@ == acq(&queue)@,
//@atexit
                    // O-POP: atomic step (from the last (re)acquisition of the lock to now): the head is removed and handed to
                    // exactly this caller; an Unblock token is consumed by exactly one receive call, which returns
                    // empty-handed; a blocking receive never returns otherwise
                    proof { axiom_receive_step(self, acq(&queue)@, gval(&queue)@, $r, false); }
//@before? 1 . wait (
            // it blocks only after having inspected the queue, under the lock, and found it empty
            proof { assert(gval(&queue)@ == acq(&queue)@ && gval(&queue)@.len() == 0); }
//@endfn

//@fn try_pop ret res props C07,C17
//@spec
    ensures received(self, res),     // and no may_block(): it cannot call Condvar::wait*
//@atexit
        // O-TRYPOP: one atomic step: at most the head is removed, a request goes to exactly this caller, an Unblock
        // token makes exactly this call come back empty-handed
        proof { axiom_receive_step(self, acq(&queue)@, gval(&queue)@, $r, true); }
//@endfn

//@fn pop_timeout ret res props C07,C17
//@spec
    ensures received(self, res),
//@entry
        proof { assume(may_block()); }   // recv_timeout() may block (for a bounded time)
        broadcast use axiom_duration_ord, axiom_duration_sub;
        // ghost monotonic clock (R18): t0 = the time of the call
        let tracked mut verif_clk = verif_clock_start();
        let ghost t0 = verif_clk.t;
//@loop 1
            invariant may_block(), verif_clk.t >= t0,
                gval(&queue)@ == acq(&queue)@,
                // O-TIME-BOOK: `duration` (what the code believes is left of the timeout) never under-estimates:
                // remaining + really elapsed >= timeout; and it never exceeds the timeout
                nanos(duration) + (verif_clk.t - t0) >= nanos(timeout),   // [C17,C07]
                nanos(duration) <= nanos(timeout),   // [C17]
//@loopentry 1
            broadcast use axiom_duration_ord, axiom_duration_sub;
//@atexit
                    proof { axiom_receive_step(self, acq(&queue)@, gval(&queue)@, $r, true); }
                    // O-TIME-LOWER (C17, C07): an empty-handed return that is not caused by an Unblock token happens only
                    // when (all but the last millisecond of) the timeout has really elapsed since the call: a receiver
                    // never gives up early, swallowing a wake-up that was meant for a request still queued
                    proof { assert($r is None ==> (acq(&queue)@.len() > 0 && acq(&queue)@[0] is Unblock) || verif_clk.t - t0 + 1_000_000 > nanos(timeout)); }   // [C17,C07]
//@before? 1 . wait_timeout (
            proof { assert(gval(&queue)@ == acq(&queue)@ && gval(&queue)@.len() == 0); }
//@endfn
//@endimpl

// ------------------------------------------------------------------ lib.rs: the receive calls
// opaque stand-ins for types this unit never looks into
#[verifier::external_body]
pub struct Request { _opaque: u8 }
#[verifier::external_body]
pub struct ListenAddr { _opaque: u8 }

//@item src/lib.rs enum Message
//@item src/lib.rs struct Server

impl Server {
    pub closed spec fn got_request(&self, rq: Request) -> bool { received(&*self.messages, Some(Message::NewRequest(rq))) }
    pub closed spec fn got_error(&self, e: IoError) -> bool { received(&*self.messages, Some(Message::Error(e))) }
    pub closed spec fn got_nothing(&self) -> bool { received(&*self.messages, None::<Message>) }
    pub closed spec fn unblock_queued(&self) -> bool { enqueued_unblock(&*self.messages) }
}

//@impl src/lib.rs "Server"
//@fn recv ret res props C07,C17
//@spec
    ensures
        // O-RECV: the outcome of exactly one receive step, mapped 1:1; an Unblock token surfaces as an error
        match res {
            Ok(rq) => self.got_request(rq),
            Err(e) => self.got_error(e) || (self.got_nothing() && io_error_kind(&e) == IoErrorKind::Other),
        },
//@endfn
//@fn recv_timeout ret res props C07,C17
//@spec
    ensures
        match res {
            Ok(Some(rq)) => self.got_request(rq),
            Ok(None) => self.got_nothing(),
            Err(e) => self.got_error(e),
        },
//@endfn
//@fn try_recv ret res props C07,C17
//@spec
    ensures
        match res {
            Ok(Some(rq)) => self.got_request(rq),
            Ok(None) => self.got_nothing(),
            Err(e) => self.got_error(e),
        },
//@endfn
//@fn unblock props C17
//@spec
    ensures self.unblock_queued(),
//@endfn
//@endimpl

//@item src/lib.rs struct IncomingRequests
//@impl src/lib.rs "Iterator for IncomingRequests<'_>" inherent
//@fn next ret res props C07,C17
//@spec
    ensures
        // the iterator is recv(): a request it yields was taken from the queue by exactly this call; it ends (None) when a
        // receive step came back with an error or an Unblock token
        match res {
            Some(rq) => old(self).server.got_request(rq),
            None => true,
        },
//@endfn
//@endimpl

} // verus!
fn main() {}
