// UNIT U-TCP: util/refined_tcp_stream.rs  RefinedTcpStream::{new, read, write, flush, drop}  (DESIGN 5 / C12, C15)
#![allow(unused_imports, dead_code, unused_variables, unused_mut)]
use vstd::prelude::*;
use std::io::Result as IoResult;
use std::io::{Read, Write};
use std::net::{Shutdown, SocketAddr};

verus! {
//@include prelude/io.rs

#[verifier::external_type_specification]
pub struct ExShutdown(std::net::Shutdown);
#[verifier::external_type_specification]
#[verifier::external_body]
pub struct ExSocketAddr(std::net::SocketAddr);

#[verifier::external_trait_specification]
pub trait ExWrite {
    type ExternalTraitSpecificationFor: std::io::Write;
    fn write(&mut self, buf: &[u8]) -> (r: std::io::Result<usize>);
    fn flush(&mut self) -> (r: std::io::Result<()>);
}

// the socket handle (enum over TCP / UNIX / TLS streams): opaque; ASSUMED to be a Read / Write whose shutdown(how)
// closes that direction of the underlying socket (OS)
#[verifier::external_body]
pub struct Stream { s: u8 }
// Shutting a direction of the socket down is a capability: it is granted only where the property allows it
// (C12: the sending side closes when the last writer handle dies, never because the CLIENT closed its side).
pub uninterp spec fn may_shutdown(how: Shutdown) -> bool;
pub uninterp spec fn shutdown_called(how: Shutdown) -> bool;     // effect witness
pub uninterp spec fn stream_bytes(s: &Stream) -> Seq<u8>;
pub uninterp spec fn stream_failed(s: &Stream) -> bool;
impl ReadSpecImpl for Stream {
    open spec fn stream(&self) -> Seq<u8> { stream_bytes(self) }
    open spec fn failed(&self) -> bool { stream_failed(self) }
    open spec fn release(&self) -> Seq<u8> { stream_bytes(self) }
    open spec fn drained(&self) -> Seq<u8> { Seq::empty() }
    open spec fn owns_source(&self) -> bool { true }
}
#[verifier::external] impl Read for Stream { fn read(&mut self, buf: &mut [u8]) -> IoResult<usize> { unimplemented!() } }
#[verifier::external] impl Write for Stream { fn write(&mut self, buf: &[u8]) -> IoResult<usize> { unimplemented!() } fn flush(&mut self) -> IoResult<()> { unimplemented!() } }
impl Stream {
    #[verifier::external_body]
    fn shutdown(&mut self, how: Shutdown) -> (r: IoResult<()>)
        requires may_shutdown(how)
        ensures shutdown_called(how), stream_bytes(final(self)) == stream_bytes(old(self))
    { unimplemented!() }
    #[verifier::external_body]
    fn secure(&self) -> (r: bool) { unimplemented!() }
    #[verifier::external_body]
    fn peer_addr(&mut self) -> (r: IoResult<Option<SocketAddr>>) { unimplemented!() }
}

//@item src/util/refined_tcp_stream.rs struct RefinedTcpStream

impl RefinedTcpStream {
    pub closed spec fn closes_read(&self) -> bool { self.close_read }
    pub closed spec fn closes_write(&self) -> bool { self.close_write }
    pub closed spec fn sock(&self) -> Stream { self.stream }
}
impl ReadSpecImpl for RefinedTcpStream {
    open spec fn stream(&self) -> Seq<u8> { stream_bytes(&self.sock()) }
    open spec fn failed(&self) -> bool { stream_failed(&self.sock()) }
    open spec fn release(&self) -> Seq<u8> { stream_bytes(&self.sock()) }
    open spec fn drained(&self) -> Seq<u8> { Seq::empty() }
    open spec fn owns_source(&self) -> bool { true }
}

// the crate's `impl Clone for Stream` duplicates the OS handle (try_clone): contract-free here, only its type matters
impl Clone for Stream {
    #[verifier::external_body]
    fn clone(&self) -> (r: Self) { unimplemented!() }
}

//@impl src/util/refined_tcp_stream.rs "impl RefinedTcpStream"
//@fn new ret r props C12,C15
//@spec
    ensures
        // O-HALVES (C12): the two handles made for a connection own one direction each -- the first (given to the request
        // readers) the receiving side only, the second (given to the response writers) the sending side only; with
        // O-SHUTDOWN below, the sending side is therefore closed by the death of the last WRITER and by nothing else
        r.0.closes_read() && !r.0.closes_write(),
        r.1.closes_write() && !r.1.closes_read(),
//@endfn
//@endimpl

//@impl src/util/refined_tcp_stream.rs "Read for RefinedTcpStream"
//@fn read ret res props C12,C13,C15
//@spec
    // the stream contract (Read trait specification) by delegation; a read -- including one that sees end-of-stream
    // because the client closed its sending side -- closes nothing (no may_shutdown here) and keeps the flags
    ensures final(self).closes_read() == old(self).closes_read(), final(self).closes_write() == old(self).closes_write(),
//@endfn
//@endimpl
//@impl src/util/refined_tcp_stream.rs "Write for RefinedTcpStream"
//@fn write ret res props C12
//@spec
    ensures final(self).closes_read() == old(self).closes_read(), final(self).closes_write() == old(self).closes_write(),
//@endfn
//@fn flush ret res props C12
//@spec
    ensures final(self).closes_read() == old(self).closes_read(), final(self).closes_write() == old(self).closes_write(),
//@endfn
//@endimpl

//@impl src/util/refined_tcp_stream.rs "Drop for RefinedTcpStream" inherent required
//@fn drop as drop_body props C12,C15
//@spec
    ensures
        // O-SHUTDOWN (C12): the read half closes the receiving direction, the write half the sending direction, when
        // (and only when) the handle that owns that direction dies
        old(self).closes_read() ==> shutdown_called(Shutdown::Read),
        old(self).closes_write() ==> shutdown_called(Shutdown::Write),
//@entry
        proof {
            // the capability: exactly the directions this handle owns
            assume(self.closes_read() ==> may_shutdown(Shutdown::Read));
            assume(self.closes_write() ==> may_shutdown(Shutdown::Write));
        }
//@endfn
//@endimpl

// ---- code this unit's claims rely on that is outside the verifier: pinned to the reference tree (rule ix of ./check) ----
//@watch src/util/refined_tcp_stream.rs "impl Stream" shutdown
} // verus!
fn main() {}
