// UNIT U-CMP: common.rs  ordering of HTTPVersion (used by `*http_version <= (1, 0)` and `> (1, 1)`)  (DESIGN 5 / C05, C10)
#![allow(unused_imports, dead_code, unused_variables, unused_mut)]
use vstd::prelude::*;
use std::cmp::Ordering;

verus! {

//@item src/common.rs struct HTTPVersion

//@include contracts/version_cmp.inc

} // verus!
fn main() {}
