// UNIT U-CMP: common.rs  ordering of HTTPVersion (used by `*http_version <= (1, 0)` and `> (1, 1)`)  (DESIGN 5 / C05, C10)
#![allow(unused_imports, dead_code, unused_variables, unused_mut)]
use vstd::prelude::*;
use std::cmp::Ordering;

verus! {

//@item src/common.rs struct HTTPVersion

pub open spec fn lex_cmp(a: (u8, u8), b: (u8, u8)) -> Ordering {
    if a.0 < b.0 { Ordering::Less } else if a.0 > b.0 { Ordering::Greater }
    else if a.1 < b.1 { Ordering::Less } else if a.1 > b.1 { Ordering::Greater } else { Ordering::Equal }
}

// A5: the companions vstd demands; the real bodies below are verified against these spec functions,
// so `a <= b` / `a > b` on versions in other units means exactly lex_cmp.
impl vstd::std_specs::cmp::PartialEqSpecImpl for HTTPVersion {
    open spec fn obeys_eq_spec() -> bool { true }
    open spec fn eq_spec(&self, other: &HTTPVersion) -> bool { *self == *other }
}
impl vstd::std_specs::cmp::PartialOrdSpecImpl for HTTPVersion {
    open spec fn obeys_partial_cmp_spec() -> bool { true }
    open spec fn partial_cmp_spec(&self, other: &HTTPVersion) -> Option<Ordering> { Some(lex_cmp((self.0, self.1), (other.0, other.1))) }
}
impl vstd::std_specs::cmp::OrdSpecImpl for HTTPVersion {
    open spec fn obeys_cmp_spec() -> bool { true }
    open spec fn cmp_spec(&self, other: &HTTPVersion) -> Ordering { lex_cmp((self.0, self.1), (other.0, other.1)) }
}
impl vstd::std_specs::cmp::PartialEqSpecImpl<(u8, u8)> for HTTPVersion {
    open spec fn obeys_eq_spec() -> bool { true }
    open spec fn eq_spec(&self, other: &(u8, u8)) -> bool { self.0 == other.0 && self.1 == other.1 }
}
impl vstd::std_specs::cmp::PartialOrdSpecImpl<(u8, u8)> for HTTPVersion {
    open spec fn obeys_partial_cmp_spec() -> bool { true }
    open spec fn partial_cmp_spec(&self, other: &(u8, u8)) -> Option<Ordering> { Some(lex_cmp((self.0, self.1), *other)) }
}

//@impl src/common.rs "Ord for HTTPVersion"
//@fn cmp ret r props C05,C10
//@spec
    ensures r == lex_cmp((self.0, self.1), (other.0, other.1)),   // O-VERSION-ORDER: lexicographic on (major, minor)
//@endfn
//@endimpl

//@impl src/common.rs "PartialOrd for HTTPVersion"
//@fn partial_cmp ret r props C05,C10
//@spec
    ensures r == Some(lex_cmp((self.0, self.1), (other.0, other.1))),
//@endfn
//@endimpl

//@impl src/common.rs "PartialOrd<(u8, u8)> for HTTPVersion"
//@fn partial_cmp ret r props C05,C10
//@spec
    ensures r == Some(lex_cmp((self.0, self.1), *__p)),
//@endfn
//@endimpl

//@impl src/common.rs "PartialEq<(u8, u8)> for HTTPVersion"
//@fn eq ret r props C05,C10
//@spec
    ensures r == (self.0 == __p.0 && self.1 == __p.1),
//@endfn
//@endimpl

} // verus!
fn main() {}
