//! Helpers shared by the replay programs: each program drives the REAL tiny_http (path dependency
//! on /repo) with one concrete input / history and prints `REPLAY-OK` (behaviour conforms to the
//! property) or `REPLAY-VIOLATION <what>`; exit status 0 / 1.
use std::io::{Read, Write};
use std::net::TcpStream;
use std::time::Duration;

pub fn connect(server: &tiny_http::Server) -> TcpStream {
    let addr = server.server_addr().to_ip().unwrap();
    let s = TcpStream::connect(addr).unwrap();
    s.set_read_timeout(Some(Duration::from_millis(1500))).unwrap();
    s
}

/// read whatever arrives until timeout / EOF
pub fn read_available(s: &mut TcpStream) -> Vec<u8> {
    let mut out = Vec::new();
    let mut buf = [0u8; 4096];
    loop {
        match s.read(&mut buf) {
            Ok(0) => break,
            Ok(n) => out.extend_from_slice(&buf[..n]),
            Err(_) => break,
        }
    }
    out
}

pub fn send(s: &mut TcpStream, data: &[u8]) {
    s.write_all(data).unwrap();
    s.flush().unwrap();
}

pub fn verdict(ok: bool, what: &str) -> ! {
    if ok {
        println!("REPLAY-OK {}", what);
        std::process::exit(0)
    } else {
        println!("REPLAY-VIOLATION {}", what);
        std::process::exit(1)
    }
}

/// Values of the header `name` in a message head (first line skipped), the way a conforming recipient reads them: the name is
/// matched without regard to letter case, the value is what follows the first colon with optional blanks around it removed.
pub fn header_values(head: &str, name: &str) -> Vec<String> {
    head.lines().skip(1).filter_map(|l| {
        let mut p = l.splitn(2, ':');
        let n = p.next()?;
        let v = p.next()?;
        if n.eq_ignore_ascii_case(name) { Some(v.trim_matches(|c| c == ' ' || c == '\t').to_string()) } else { None }
    }).collect()
}
/// does the (comma separated) header `name` carry the element `token`?
pub fn has_header_token(head: &str, name: &str, token: &str) -> bool {
    header_values(head, name).iter().any(|v| v.split(',').any(|e| e.trim().eq_ignore_ascii_case(token)))
}
/// (name, value) pairs of a head, in order
pub fn header_pairs(head: &str) -> Vec<(String, String)> {
    head.lines().skip(1).filter_map(|l| { let mut p = l.splitn(2, ':'); let n = p.next()?; let v = p.next()?; Some((n.to_string(), v.trim_matches(|c| c == ' ' || c == '\t').to_string())) }).collect()
}
