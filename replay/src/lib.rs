//! Helpers shared by the replay programs: each program drives the REAL tiny_http (path dependency
//! on /repo) with one concrete input / history and prints `REPLAY-OK` (behaviour conforms to the
//! property) or `REPLAY-VIOLATION <what>`; exit status 0 / 1.
use std::io::{Read, Write};
use std::net::TcpStream;
use std::time::Duration;

pub fn connect(server: &tiny_http::Server) -> TcpStream {
    let addr = server.server_addr().to_ip().unwrap();
    let s = TcpStream::connect(addr).unwrap();
    s.set_read_timeout(Some(Duration::from_millis(1500))).unwrap();
    s
}

/// read whatever arrives until timeout / EOF
pub fn read_available(s: &mut TcpStream) -> Vec<u8> {
    let mut out = Vec::new();
    let mut buf = [0u8; 4096];
    loop {
        match s.read(&mut buf) {
            Ok(0) => break,
            Ok(n) => out.extend_from_slice(&buf[..n]),
            Err(_) => break,
        }
    }
    out
}

pub fn send(s: &mut TcpStream, data: &[u8]) {
    s.write_all(data).unwrap();
    s.flush().unwrap();
}

pub fn verdict(ok: bool, what: &str) -> ! {
    if ok {
        println!("REPLAY-OK {}", what);
        std::process::exit(0)
    } else {
        println!("REPLAY-VIOLATION {}", what);
        std::process::exit(1)
    }
}
