//! C14: no client-supplied `TE` value may panic the thread that answers the request (or make it fail): the header is
//! advisory, a value the server cannot make sense of is ignored.
use verif_replay::*;
fn main() {
    let values = ["chunked;q", "chunked; q ", "x;Q", "deflate;q=", "x;q==1", ";", ",", ",,;;,", "q", "q=1", "=", "x;=", "x; =0.5", "a;q=1e999", "a;q=-0", "a;q=-1", "a;q=inf", "a;q=0.5;q",
                  "trailers, deflate;q=0.5, chunked; q ", "x;q=0.5;y", "\u{7f};q=1", "x;q=0x1p3", "x ; q = 0.5", "chunked;q=0.000", "chunked;q=1.000;"];
    let mut bad = Vec::new();
    for v in values {
        let server = tiny_http::Server::http("127.0.0.1:0").unwrap();
        let mut c = connect(&server);
        send(&mut c, format!("GET /x HTTP/1.1\r\nHost: a\r\nConnection: close\r\nTE: {}\r\n\r\n", v).as_bytes());
        let rq = match server.recv_timeout(std::time::Duration::from_millis(800)).unwrap() { Some(rq) => rq, None => { bad.push(format!("TE: {:?}: request not delivered", v)); continue } };
        let res = std::thread::spawn(move || rq.respond(tiny_http::Response::from_string("ok"))).join();
        let answer = String::from_utf8_lossy(&read_available(&mut c)).to_string();
        match res {
            Err(_) => bad.push(format!("TE: {:?}: the thread answering the request PANICKED inside the library; client got {:?}", v, answer.lines().next())),
            Ok(r) => if r.is_err() || !answer.starts_with("HTTP/1.1 200") || !(answer.ends_with("ok") || answer.ends_with("ok\r\n0\r\n\r\n")) { bad.push(format!("TE: {:?}: respond -> {:?}, client got {:?}", v, r.is_ok(), answer.lines().next())) },
        }
    }
    verdict(bad.is_empty(), &if bad.is_empty() { format!("{} odd TE values answered without a panic", values.len()) } else { bad.join(" | ") });
}
