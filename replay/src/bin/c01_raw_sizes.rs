//! C01: a response written through the raw writer as ONE piece of any size (below, at and above the 1 KiB shared write
//! buffer) by a thread whose turn has not come yet must not overtake, or land inside, the response of the earlier request.
use std::io::Write;
use std::time::Duration;
use verif_replay::*;
fn main() {
    let mut bad = Vec::new();
    for size in [10usize, 1000, 1023, 1024, 1025, 3000, 20000] {
        let server = tiny_http::Server::http("127.0.0.1:0").unwrap();
        let mut c = connect(&server);
        send(&mut c, b"GET /1 HTTP/1.1\r\nHost: a\r\n\r\nGET /2 HTTP/1.1\r\nHost: a\r\nConnection: close\r\n\r\n");
        let rq1 = server.recv().unwrap();
        let rq2 = server.recv().unwrap();
        let t2 = std::thread::spawn(move || {
            let mut w = rq2.into_writer();
            let mut msg = format!("HTTP/1.1 200 OK\r\nContent-Length: {}\r\n\r\n", size).into_bytes();
            msg.extend(std::iter::repeat(b'B').take(size));
            let _ = w.write_all(&msg);      // first call on this writer: one large piece
            let _ = w.flush();
        });
        std::thread::sleep(Duration::from_millis(120));
        let mut w = rq1.into_writer();
        let _ = w.write_all(b"HTTP/1.1 200 OK\r\nContent-Length: 8\r\n\r\nAAAA");
        let _ = w.flush();
        std::thread::sleep(Duration::from_millis(80));
        let _ = w.write_all(b"AAAA");
        let _ = w.flush();
        drop(w);
        let _ = t2.join();
        let out = read_available(&mut c);
        let last_a = out.iter().rposition(|&b| b == b'A');
        let first_b = out.iter().position(|&b| b == b'B');
        let n_b = out.iter().filter(|&&b| b == b'B').count();
        match (last_a, first_b) {
            (Some(a), Some(b)) if a < b && n_b == size => {}
            _ => bad.push(format!("second response = one raw write of {} body bytes: last byte of response 1 at {:?}, first body byte of response 2 at {:?}, {} of {} body bytes of response 2 seen", size, last_a, first_b, n_b, size)),
        }
    }
    verdict(bad.is_empty(), &if bad.is_empty() { "raw single-piece responses of 7 sizes stay behind the earlier response".into() } else { bad.join(" | ") });
}
