//! C01: responses of one connection are written in request order and never interleaved, also when the application
//! writes a response through the raw writer in several pieces with explicit flushes in between (and when flush is the
//! very first call on a writer whose turn has not come yet).
use std::io::Write;
use std::time::Duration;
use verif_replay::*;
fn main() {
    let server = tiny_http::Server::http("127.0.0.1:0").unwrap();
    let mut c = connect(&server);
    send(&mut c, b"GET /1 HTTP/1.1\r\nHost: a\r\n\r\nGET /2 HTTP/1.1\r\nHost: a\r\n\r\nGET /3 HTTP/1.1\r\nHost: a\r\nConnection: close\r\n\r\n");
    let rq1 = server.recv().unwrap();
    let rq2 = server.recv().unwrap();
    let rq3 = server.recv().unwrap();
    // thread B: response 2 via the raw writer, flush FIRST (its turn has not come), then the message
    let t2 = std::thread::spawn(move || {
        let mut w = rq2.into_writer();
        let _ = w.flush();
        let _ = w.write_all(b"HTTP/1.1 200 OK\r\nContent-Length: 3\r\n\r\nTWO");
        let _ = w.flush();
    });
    // thread C: response 3 the ordinary way
    let t3 = std::thread::spawn(move || { let _ = rq3.respond(tiny_http::Response::from_string("THREE")); });
    std::thread::sleep(Duration::from_millis(200));
    // response 1 via the raw writer in two pieces with a flush in between and a pause
    let mut w = rq1.into_writer();
    let _ = w.write_all(b"HTTP/1.1 200 OK\r\nContent-Length: 8\r\n\r\nONE-");
    let _ = w.flush();
    std::thread::sleep(Duration::from_millis(300));
    let _ = w.write_all(b"MORE");
    let _ = w.flush();
    drop(w);
    let _ = t2.join();
    let _ = t3.join();
    let out = String::from_utf8_lossy(&read_available(&mut c)).to_string();
    let p1 = out.find("ONE-MORE");
    let p2 = out.find("TWO");
    let p3 = out.find("THREE");
    let ok = matches!((p1, p2, p3), (Some(a), Some(b), Some(d)) if a < b && b < d);
    verdict(ok, &format!("bodies on the wire in order ONE-MORE < TWO < THREE: positions {:?} {:?} {:?}; stream: {:?}", p1, p2, p3, out.replace("\r\n", "|").chars().take(220).collect::<String>()));
}
