//! A zero-length read on the body reader must not change what the body delivers (std::io::Read:
//! Ok(0) for an empty buffer says nothing about end-of-stream).
use std::io::Read;
use verif_replay::*;
fn main() {
    let server = tiny_http::Server::http("127.0.0.1:0").unwrap();
    let mut c = connect(&server);
    let body = vec![b'x'; 2000];
    let mut msg = b"POST /x HTTP/1.1\r\nHost: a\r\nContent-Length: 2000\r\n\r\n".to_vec();
    msg.extend_from_slice(&body);
    send(&mut c, &msg);
    let mut rq = server.recv().unwrap();
    let n0 = rq.as_reader().read(&mut []).unwrap();
    let mut got = Vec::new();
    rq.as_reader().read_to_end(&mut got).unwrap();
    rq.respond(tiny_http::Response::from_string("ok")).unwrap();
    verdict(n0 == 0 && got == body, &format!("zero-length read then read_to_end delivered {} of 2000 body bytes", got.len()));
}
