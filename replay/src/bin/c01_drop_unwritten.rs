//! F-C01-drop-unwritten (history b): three pipelined requests; the raw writer of request 2 is
//! dropped without a write while request 1 is still unanswered; request 3 is answered on another
//! thread; only then request 1 is answered.  The client must see response 1 before response 3.
use std::time::Duration;
use verif_replay::*;
fn main() {
    let server = tiny_http::Server::http("127.0.0.1:0").unwrap();
    let mut c = connect(&server);
    send(&mut c, b"GET /1 HTTP/1.1\r\nHost: a\r\n\r\nGET /2 HTTP/1.1\r\nHost: a\r\n\r\nGET /3 HTTP/1.1\r\nHost: a\r\n\r\n");
    let r1 = server.recv().unwrap();
    let r2 = server.recv().unwrap();
    let r3 = server.recv().unwrap();
    assert_eq!((r1.url(), r2.url(), r3.url()), ("/1", "/2", "/3"));
    // request 2: take the raw writer and drop it unwritten -- on its own thread (it may have to wait)
    let t2 = std::thread::spawn(move || drop(r2.into_writer()));
    std::thread::sleep(Duration::from_millis(200));
    let t3 = std::thread::spawn(move || r3.respond(tiny_http::Response::from_string("THREE")).unwrap());
    std::thread::sleep(Duration::from_millis(300));
    r1.respond(tiny_http::Response::from_string("ONE")).unwrap();
    t2.join().unwrap();
    t3.join().unwrap();
    let out = String::from_utf8_lossy(&read_available(&mut c)).to_string();
    let p1 = out.find("ONE");
    let p3 = out.find("THREE");
    let ok = match (p1, p3) { (Some(a), Some(b)) => a < b, _ => false };
    verdict(ok, &format!("positions in the client's byte stream: response 1 at {:?}, response 3 at {:?}", p1, p3));
}
