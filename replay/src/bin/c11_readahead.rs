//! C11: pipelined requests whose bodies are absent or at most 1024 bytes (no 100-continue) all become available to the
//! application while none has been answered.  Body sizes around the threshold, at every position of the pipeline.
use std::time::Duration;
use verif_replay::*;
fn main() {
    let mut bad = Vec::new();
    for sizes in [vec![0usize, 0, 0], vec![1024, 1, 1024], vec![10, 1024, 1023, 0], vec![1024, 1024, 1024, 1024], vec![500, 0, 1024]] {
        let server = tiny_http::Server::http("127.0.0.1:0").unwrap();
        let mut c = connect(&server);
        let mut msg = Vec::new();
        for (i, n) in sizes.iter().enumerate() {
            msg.extend_from_slice(format!("POST /{} HTTP/1.1\r\nHost: a\r\nContent-Length: {}\r\n\r\n", i, n).as_bytes());
            msg.extend(std::iter::repeat(b'a' + (i as u8)).take(*n));
        }
        send(&mut c, &msg);
        let mut held = Vec::new();
        while held.len() < sizes.len() {
            match server.recv_timeout(Duration::from_millis(1200)).unwrap() { Some(rq) => held.push(rq), None => break }
        }
        if held.len() != sizes.len() {
            bad.push(format!("body sizes {:?}: only {} of {} requests available while none is answered", sizes, held.len(), sizes.len()));
        }
        for mut rq in held { let mut v = Vec::new(); let _ = std::io::Read::read_to_end(rq.as_reader(), &mut v); let _ = rq.respond(tiny_http::Response::from_string("ok")); }
    }
    verdict(bad.is_empty(), &format!("read-ahead: {}", if bad.is_empty() { "every pipeline fully available before any answer".into() } else { bad.join(" | ") }));
}
