//! C17: try_recv never blocks and recv_timeout keeps its bound -- also while ANOTHER thread is parked in recv() on the
//! same server; a request arriving then is delivered exactly once, and unblock() releases the parked thread.
use std::sync::Arc;
use std::time::{Duration, Instant};
use verif_replay::*;
fn main() {
    let server = Arc::new(tiny_http::Server::http("127.0.0.1:0").unwrap());
    let (tx, rx) = std::sync::mpsc::channel();
    let s2 = server.clone();
    let parked = std::thread::spawn(move || {
        // hands out what it receives; ends on the first error (unblock) 
        loop { match s2.recv() { Ok(rq) => { tx.send(rq.url().to_string()).ok(); let _ = rq.respond(tiny_http::Response::from_string("ok")); } Err(_) => break } }
    });
    std::thread::sleep(Duration::from_millis(200));
    let mut bad = Vec::new();
    // each probe runs on its own thread so that a probe that blocks shows up as a timeout instead of hanging this program
    let s3 = server.clone();
    let (ptx, prx) = std::sync::mpsc::channel();
    std::thread::spawn(move || {
        let t0 = Instant::now();
        let r = s3.try_recv().map(|o| o.map(|rq| rq.url().to_string()));
        ptx.send(("try_recv", t0.elapsed(), format!("{:?}", r))).ok();
        let t0 = Instant::now();
        let r = s3.recv_timeout(Duration::from_millis(200)).map(|o| o.map(|rq| rq.url().to_string()));
        ptx.send(("recv_timeout(200ms)", t0.elapsed(), format!("{:?}", r))).ok();
    });
    match prx.recv_timeout(Duration::from_millis(1000)) {
        Ok((_, el, r)) => if el > Duration::from_millis(500) || r != "Ok(None)" { bad.push(format!("try_recv next to a thread parked in recv(): took {:?}, returned {}", el, r)) },
        Err(_) => bad.push("try_recv next to a thread parked in recv() did not return within 1 s".to_string()),
    }
    match prx.recv_timeout(Duration::from_millis(1500)) {
        Ok((_, el, r)) => if el < Duration::from_millis(150) || el > Duration::from_millis(1200) || r != "Ok(None)" { bad.push(format!("recv_timeout(200ms) next to a thread parked in recv(): took {:?}, returned {}", el, r)) },
        Err(_) => bad.push("recv_timeout(200ms) next to a thread parked in recv() did not return within 1.5 s".to_string()),
    }
    // a request arriving now is delivered exactly once (to the parked thread: nobody else is receiving)
    let mut c = connect(&server);
    send(&mut c, b"GET /only HTTP/1.1\r\nHost: a\r\nConnection: close\r\n\r\n");
    let got = rx.recv_timeout(Duration::from_millis(1500)).ok();
    let twice = rx.recv_timeout(Duration::from_millis(200)).ok();
    if got.as_deref() != Some("/only") || twice.is_some() { bad.push(format!("request sent while a thread is parked in recv(): delivered {:?}, then {:?}", got, twice)); }
    let _ = read_available(&mut c);
    server.unblock();
    let t0 = Instant::now();
    while !parked.is_finished() && t0.elapsed() < Duration::from_millis(1500) { std::thread::sleep(Duration::from_millis(20)); }
    if !parked.is_finished() { bad.push("unblock() did not release the thread parked in recv() within 1.5 s".to_string()); }
    verdict(bad.is_empty(), &if bad.is_empty() { "try_recv / recv_timeout keep their bounds next to a parked recv(); the request is delivered once; unblock releases".into() } else { bad.join(" | ") });
}
