//! C18: `Expect: 100-continue`: the interim 100 is sent when (and only when) the application asks for the body, whatever
//! the body framing, before the final response; a request without the expectation never gets one.
use std::io::Read;
use std::time::Duration;
use verif_replay::*;
fn main() {
    let mut bad = Vec::new();
    for (name, head, body) in [
        ("cl5", "POST /x HTTP/1.1\r\nHost: a\r\nExpect: 100-continue\r\nContent-Length: 5\r\n\r\n", &b"hello"[..]),
        ("cl0", "POST /x HTTP/1.1\r\nHost: a\r\nExpect: 100-Continue\r\nContent-Length: 0\r\n\r\n", &b""[..]),
        ("chunked", "POST /x HTTP/1.1\r\nHost: a\r\nexpect: 100-continue\r\nTransfer-Encoding: chunked\r\n\r\n", &b"5\r\nhello\r\n0\r\n\r\n"[..]),
        ("none", "POST /x HTTP/1.1\r\nHost: a\r\nContent-Length: 5\r\n\r\n", &b"hello"[..]),
    ] {
        let server = tiny_http::Server::http("127.0.0.1:0").unwrap();
        let mut c = connect(&server);
        c.set_read_timeout(Some(Duration::from_millis(700))).unwrap();
        send(&mut c, head.as_bytes());
        if name == "none" { send(&mut c, body); }
        let mut rq = match server.recv_timeout(Duration::from_millis(800)).unwrap() { Some(r) => r, None => { bad.push(format!("{}: not delivered", name)); continue; } };
        let t = std::thread::spawn(move || { let mut v = Vec::new(); let _ = rq.as_reader().read_to_end(&mut v); let _ = rq.respond(tiny_http::Response::from_string("done")); v });
        // a client that withholds the body until it sees the 100
        let mut buf = [0u8; 512];
        let n = c.read(&mut buf).unwrap_or(0);
        let first = String::from_utf8_lossy(&buf[..n]).to_string();
        if name != "none" {
            if !first.starts_with("HTTP/1.1 100") { bad.push(format!("{}: no `100 Continue` before the body was sent (first bytes {:?})", name, first.lines().next())); }
            send(&mut c, body);
        } else if first.starts_with("HTTP/1.1 100") { bad.push("none: a 100 without expectation".into()); }
        let rest = String::from_utf8_lossy(&read_available(&mut c)).to_string();
        let all = first + &rest;
        let got = t.join().unwrap();
        if !all.contains("HTTP/1.1 200") { bad.push(format!("{}: no final 200", name)); }
        if name != "cl0" && got != b"hello" { bad.push(format!("{}: body read {:?}", name, String::from_utf8_lossy(&got))); }
    }
    verdict(bad.is_empty(), &format!("100-continue matrix: {}", if bad.is_empty() { "all as the property says".into() } else { bad.join(" | ") }));
}
