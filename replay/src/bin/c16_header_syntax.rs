//! C16: a request whose framing-relevant header syntax is ambiguous must be answered with 400 and
//! never delivered; the bytes after its head must not be parsed as a further request.
//! usage: c16_header_syntax <case>   case in {cl-sign, cl-junk, cl-list, cl-empty, cl-blank, cl-tab, cl-overflow, blank-fold, lead-ws, ws-before-colon, all}
use std::time::Duration;
use verif_replay::*;
const CASES: [&str; 10] = ["cl-sign", "cl-junk", "cl-list", "cl-empty", "cl-blank", "cl-tab", "cl-overflow", "blank-fold", "lead-ws", "ws-before-colon"];
fn head_of(case: &str) -> &'static [u8] {
    match case {
        "cl-sign" => b"POST /a HTTP/1.1\r\nHost: a\r\nContent-Length: +3\r\n\r\nabc",
        "cl-junk" => b"POST /a HTTP/1.1\r\nHost: a\r\nContent-Length: 3x\r\n\r\nabc",
        "cl-list" => b"POST /a HTTP/1.1\r\nHost: a\r\nContent-Length: 3, 3\r\n\r\nabc",
        "cl-empty" => b"POST /a HTTP/1.1\r\nHost: a\r\nContent-Length:\r\n\r\nabc",
        "cl-blank" => b"POST /a HTTP/1.1\r\nHost: a\r\nContent-Length: \r\n\r\nabc",
        "cl-tab" => b"POST /a HTTP/1.1\r\nHost: a\r\nContent-Length:\t\r\n\r\nabc",
        "cl-overflow" => b"POST /a HTTP/1.1\r\nHost: a\r\nContent-Length: 340282366920938463463374607431768211456\r\n\r\nabc",
        "blank-fold" => b"POST /a HTTP/1.1\r\nHost: a\r\nContent-Length: 0\r\n \t\r\nX: y\r\n\r\n",
        "lead-ws" => b"POST /a HTTP/1.1\r\nHost: a\r\n Content-Length: 3\r\n\r\nabc",
        "ws-before-colon" => b"POST /a HTTP/1.1\r\nHost: a\r\nContent-Length : 3\r\n\r\nabc",
        _ => panic!("unknown case"),
    }
}
/// None = as the property says; Some(what) = what went wrong
fn run_case(case: &str) -> (bool, String) {
    let server = tiny_http::Server::http("127.0.0.1:0").unwrap();
    let mut c = connect(&server);
    let mut msg = head_of(case).to_vec();
    msg.extend_from_slice(b"GET /smuggled HTTP/1.1\r\nHost: a\r\n\r\n");
    send(&mut c, &msg);
    let mut delivered = Vec::new();
    while let Ok(Some(rq)) = server.recv_timeout(Duration::from_millis(400)) {
        delivered.push(format!("{} {} body_length={:?}", rq.method(), rq.url(), rq.body_length()));
        let _ = rq.respond(tiny_http::Response::from_string("ok"));
    }
    let out = String::from_utf8_lossy(&read_available(&mut c)).to_string();
    let got_400 = out.starts_with("HTTP/1.1 400");
    (delivered.is_empty() && got_400, format!("case {}: delivered to the application: {:?}; first response line: {:?}", case, delivered, out.lines().next()))
}
fn main() {
    let case = std::env::args().nth(1).unwrap_or_else(|| "cl-sign".into());
    if case == "all" {
        let bad: Vec<String> = CASES.iter().map(|c| run_case(c)).filter(|r| !r.0).map(|r| r.1).collect();
        verdict(bad.is_empty(), &if bad.is_empty() { format!("all {} cases: 400, nothing delivered", CASES.len()) } else { bad.join(" | ") });
    }
    let (ok, what) = run_case(&case);
    verdict(ok, &what);
}
