//! C03: the body is delimited exactly by the framing.  Transfer-Encoding overrides Content-Length; an upgrade token
//! anywhere in a Connection list hands over all remaining bytes; otherwise exactly Content-Length bytes.
use std::io::Read;
use std::time::Duration;
use verif_replay::*;
fn main() {
    let mut bad = Vec::new();
    let cases: Vec<(&str, &[u8], &[u8], Option<&str>)> = vec![
        ("te-and-cl", b"POST /x HTTP/1.1\r\nHost: a\r\nContent-Length: 3\r\nTransfer-Encoding: chunked\r\n\r\n5\r\nhello\r\n0\r\n\r\nGET /next HTTP/1.1\r\nHost: a\r\nConnection: close\r\n\r\n", b"hello", Some("/next")),
        ("cl-exact", b"POST /x HTTP/1.1\r\nHost: a\r\nContent-Length: 5\r\n\r\nhelloGET /next HTTP/1.1\r\nHost: a\r\nConnection: close\r\n\r\n", b"hello", Some("/next")),
        ("no-body", b"GET /x HTTP/1.1\r\nHost: a\r\n\r\nGET /next HTTP/1.1\r\nHost: a\r\nConnection: close\r\n\r\n", b"", Some("/next")),
        ("upgrade-list", b"GET /x HTTP/1.1\r\nHost: a\r\nConnection: keep-alive, Upgrade\r\nUpgrade: foo\r\n\r\nraw bytes after the head", b"raw bytes after the head", None),
    ];
    for (name, msg, want_body, next) in cases {
        let server = tiny_http::Server::http("127.0.0.1:0").unwrap();
        let mut c = connect(&server);
        send(&mut c, msg);
        if next.is_none() { c.shutdown(std::net::Shutdown::Write).unwrap(); }
        let mut rq = match server.recv_timeout(Duration::from_millis(800)).unwrap() { Some(r) => r, None => { bad.push(format!("{}: not delivered", name)); continue } };
        let mut body = Vec::new();
        let _ = rq.as_reader().read_to_end(&mut body);
        if body != want_body { bad.push(format!("{}: body delivered {:?}, framing designates {:?}", name, String::from_utf8_lossy(&body), String::from_utf8_lossy(want_body))); }
        let _ = rq.respond(tiny_http::Response::from_string("ok"));
        if let Some(n) = next {
            match server.recv_timeout(Duration::from_millis(800)).unwrap() {
                Some(r2) => { if r2.url() != n { bad.push(format!("{}: next request parsed as {:?}", name, r2.url())); } let _ = r2.respond(tiny_http::Response::from_string("ok")); }
                None => bad.push(format!("{}: the request after the body was lost", name)),
            }
        }
    }
    verdict(bad.is_empty(), &format!("body framing: {}", if bad.is_empty() { "all bodies as the framing designates".into() } else { bad.join(" | ") }));
}
