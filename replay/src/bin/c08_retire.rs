//! C08: after a burst has grown the worker pool and the surplus workers have retired (5 s idle period), new
//! connections are still each served without waiting for another connection to end.
use std::io::Read;
use std::time::Duration;
use verif_replay::*;
fn main() {
    let server = std::sync::Arc::new(tiny_http::Server::http("127.0.0.1:0").unwrap());
    {
        let s = server.clone();
        std::thread::spawn(move || for rq in s.incoming_requests() { let _ = rq.respond(tiny_http::Response::from_string("ok")); });
    }
    // burst: 9 keep-alive connections held open at once, then closed
    let mut burst = Vec::new();
    for i in 0..9 { let mut c = connect(&server); send(&mut c, format!("GET /burst{} HTTP/1.1\r\nHost: a\r\n\r\n", i).as_bytes()); burst.push(c); }
    for c in burst.iter_mut() { let mut b = [0u8; 256]; let _ = c.read(&mut b); }
    drop(burst);
    std::thread::sleep(Duration::from_millis(6500));   // the surplus workers retire
    // now 8 keep-alive connections, all kept open: each must be answered
    let mut held = Vec::new();
    let mut unanswered = Vec::new();
    for i in 0..8 {
        let mut c = connect(&server);
        c.set_read_timeout(Some(Duration::from_millis(1500))).unwrap();
        send(&mut c, format!("GET /after{} HTTP/1.1\r\nHost: a\r\n\r\n", i).as_bytes());
        let mut b = [0u8; 256];
        let n = c.read(&mut b).unwrap_or(0);
        if !String::from_utf8_lossy(&b[..n]).starts_with("HTTP/1.1 200") { unanswered.push(i); }
        held.push(c);
    }
    verdict(unanswered.is_empty(), &format!("after a burst and 6.5 s of idleness, 8 connections kept open at once: unanswered {:?}", unanswered));
}
