//! C17 / C07: recv_timeout returns empty-handed no earlier than about its timeout unless a request or an unblock arrives for IT.
//! Receiver A waits with a timeout; a poller spinning on try_recv() takes the two requests that arrive in the meantime, so A is woken (twice),
//! finds nothing and must go on waiting for the REST of its timeout -- not give up at once, and not wait the whole timeout again.
use std::sync::atomic::{AtomicBool, Ordering};
use std::sync::Arc;
use std::time::{Duration, Instant};
use verif_replay::*;
fn main() {
    let timeout = Duration::from_millis(1200);
    let mut observed = 0;
    let mut bad = Vec::new();
    for _round in 0..10 {
        let server = Arc::new(tiny_http::Server::http("127.0.0.1:0").unwrap());
        let sa = server.clone();
        let a = std::thread::spawn(move || {
            let t0 = Instant::now();
            let got = sa.recv_timeout(timeout).unwrap().map(|rq| { let _ = rq.respond(tiny_http::Response::from_string("A")); });
            (got.is_some(), t0.elapsed())
        });
        let stop = Arc::new(AtomicBool::new(false));
        let (sc, st) = (server.clone(), stop.clone());
        let c = std::thread::spawn(move || {
            let mut served = 0;
            while !st.load(Ordering::Relaxed) {
                if let Ok(Some(rq)) = sc.try_recv() { let _ = rq.respond(tiny_http::Response::from_string("C")); served += 1; }
            }
            served
        });
        // two requests, at ~300 ms and ~600 ms: each may wake the timed receiver, which finds nothing
        let mut outs = Vec::new();
        for _ in 0..2 {
            std::thread::sleep(Duration::from_millis(300));
            let mut cl = connect(&server);
            send(&mut cl, b"GET / HTTP/1.1\r\nHost: a\r\nConnection: close\r\n\r\n");
            outs.push(String::from_utf8_lossy(&read_available(&mut cl)).to_string());
        }
        stop.store(true, Ordering::Relaxed);
        let by_c = c.join().unwrap() == 2;
        let out = if outs.iter().all(|o| o.ends_with("C")) { "C".to_string() } else { String::new() };
        let (a_got, a_elapsed) = a.join().unwrap();
        if by_c && !a_got && out.ends_with("C") {
            observed += 1;
            // A was (possibly) woken at ~400 ms for a request it did not get: it must still honour its timeout
            if a_elapsed < timeout - Duration::from_millis(60) { bad.push(format!("recv_timeout({:?}) came back empty-handed after {:?} although every request went to another receiver", timeout, a_elapsed)); }
            if a_elapsed > timeout * 3 + Duration::from_millis(1000) { bad.push(format!("recv_timeout({:?}) took {:?}", timeout, a_elapsed)); }
        }
        if observed >= 2 || !bad.is_empty() { break; }
    }
    verdict(bad.is_empty(), &if bad.is_empty() { format!("{} rounds in which a poller took the request: the timed receiver kept waiting for the rest of its timeout", observed) } else { bad.join(" | ") });
}
