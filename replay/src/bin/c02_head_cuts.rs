//! C02 / C13: the request head the application sees does not depend on how the bytes were segmented on the wire: the same
//! head is sent cut in two at EVERY byte position (in particular between the CR and the LF of each line end).
use std::time::Duration;
use verif_replay::*;
fn main() {
    let head = b"GET /path?q=1 HTTP/1.1\r\nHost: example\r\nX-One: v1\r\nX-Two: v2\r\nAccept: a, b\r\n\r\n";
    let want = vec![("Host".to_string(), "example".to_string()), ("X-One".into(), "v1".into()), ("X-Two".into(), "v2".into()), ("Accept".into(), "a, b".into())];
    let server = tiny_http::Server::http("127.0.0.1:0").unwrap();
    let mut bad = Vec::new();
    for cut in 1..head.len() {
        let mut c = connect(&server);
        send(&mut c, &head[..cut]);
        std::thread::sleep(Duration::from_millis(12));
        send(&mut c, &head[cut..]);
        match server.recv_timeout(Duration::from_millis(700)).unwrap() {
            None => bad.push(format!("cut after byte {}: nothing delivered", cut)),
            Some(rq) => {
                let got: Vec<(String, String)> = rq.headers().iter().map(|h| (h.field.as_str().to_string(), h.value.to_string())).collect();
                if rq.url() != "/path?q=1" || got != want { bad.push(format!("cut after byte {}: target {:?}, headers {:?}", cut, rq.url(), got)); }
                let _ = rq.respond(tiny_http::Response::from_string("ok").with_header(tiny_http::Header::from_bytes(&b"Connection"[..], &b"close"[..]).unwrap()));
            }
        }
        drop(c);
        if bad.len() >= 3 { break; }
    }
    verdict(bad.is_empty(), &if bad.is_empty() { format!("{} cut positions: same head every time", head.len() - 1) } else { bad.join(" | ") });
}
