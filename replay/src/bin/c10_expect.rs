//! C10 / C18: an Expect value other than `100-continue` (any letter case) is refused with 417 and the request is not
//! delivered; `100-continue` itself is accepted.
use std::time::Duration;
use verif_replay::*;
fn main() {
    let mut bad = Vec::new();
    for (v, accept) in [("100-continue", true), ("100-Continue", true), ("100-continue, x", false), ("x100-continue", false), ("bogus", false)] {
        let server = tiny_http::Server::http("127.0.0.1:0").unwrap();
        let mut c = connect(&server);
        send(&mut c, format!("POST /x HTTP/1.1\r\nHost: a\r\nExpect: {}\r\nContent-Length: 0\r\nConnection: close\r\n\r\n", v).as_bytes());
        let got = server.recv_timeout(Duration::from_millis(500)).unwrap();
        let delivered = got.is_some();
        if let Some(rq) = got { let _ = rq.respond(tiny_http::Response::from_string("ok")); }
        let out = String::from_utf8_lossy(&read_available(&mut c)).to_string();
        if delivered != accept || (!accept && !out.starts_with("HTTP/1.1 417")) {
            bad.push(format!("Expect: {:?}: delivered={} first line {:?}", v, delivered, out.lines().next()));
        }
    }
    verdict(bad.is_empty(), &format!("Expect handling: {}", if bad.is_empty() { "as the property says".into() } else { bad.join(" | ") }));
}
