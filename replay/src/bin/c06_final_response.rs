//! C06: every request gets exactly one final response: a dropped request gets a 500 (also when a large body is unread
//! and unsent), an answered one gets no second response; and a response whose body reader fails mid-way still leaves
//! the connection with exactly that one (started) response.
use std::io::Read;
use verif_replay::*;
struct FailingBody(usize);
impl Read for FailingBody {
    fn read(&mut self, b: &mut [u8]) -> std::io::Result<usize> {
        if self.0 == 0 { return Err(std::io::Error::new(std::io::ErrorKind::Other, "body source failed")); }
        let n = b.len().min(self.0); for x in b[..n].iter_mut() { *x = b'z'; } self.0 -= n; Ok(n)
    }
}
fn count_heads(s: &str) -> Vec<String> { s.match_indices("HTTP/1.1 ").map(|(i, _)| s[i..].lines().next().unwrap_or("").to_string()).collect() }
fn main() {
    let mut bad = Vec::new();
    // (a) dropped without answer, large body declared but never sent
    {
        let server = tiny_http::Server::http("127.0.0.1:0").unwrap();
        let mut c = connect(&server);
        send(&mut c, b"POST /drop HTTP/1.1\r\nHost: a\r\nContent-Length: 5000\r\nConnection: close\r\n\r\n");
        let rq = server.recv().unwrap();
        let t = std::thread::spawn(move || drop(rq));
        let out = String::from_utf8_lossy(&read_available(&mut c)).to_string();
        drop(c);
        let _ = t.join();
        let heads = count_heads(&out);
        if heads.len() != 1 || !heads[0].starts_with("HTTP/1.1 500") { bad.push(format!("dropped request with an unsent body: responses on the wire before the client gave up: {:?}", heads)); }
    }
    // (b) answered once: nothing follows the answer
    {
        let server = tiny_http::Server::http("127.0.0.1:0").unwrap();
        let mut c = connect(&server);
        send(&mut c, b"GET /once HTTP/1.1\r\nHost: a\r\nConnection: close\r\n\r\n");
        let rq = server.recv().unwrap();
        rq.respond(tiny_http::Response::from_string("ok")).unwrap();
        let heads = count_heads(&String::from_utf8_lossy(&read_available(&mut c)));
        if heads.len() != 1 || !heads[0].starts_with("HTTP/1.1 200") { bad.push(format!("answered request: {:?}", heads)); }
    }
    // (c) the response body source fails mid-way: respond returns the error, no second (500) response is appended
    {
        let server = tiny_http::Server::http("127.0.0.1:0").unwrap();
        let mut c = connect(&server);
        send(&mut c, b"GET /fail HTTP/1.1\r\nHost: a\r\nConnection: close\r\n\r\n");
        let rq = server.recv().unwrap();
        let resp = tiny_http::Response::new(tiny_http::StatusCode(200), vec![], FailingBody(10), Some(100), None);
        let r = rq.respond(resp);
        let heads = count_heads(&String::from_utf8_lossy(&read_available(&mut c)));
        if r.is_ok() || heads.len() != 1 || !heads[0].starts_with("HTTP/1.1 200") { bad.push(format!("failing body: respond returned {:?}, status lines on the wire {:?}", r.is_ok(), heads)); }
    }
    verdict(bad.is_empty(), &format!("exactly one final response: {}", if bad.is_empty() { "in all three situations".into() } else { bad.join(" | ") }));
}
