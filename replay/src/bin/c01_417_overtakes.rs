//! F-C01-drop-unwritten (history a): GET /a (answered after 600 ms) pipelined with a request
//! carrying an unsupported Expect value.  The 417 must arrive AFTER the response to /a.
use std::time::Duration;
use verif_replay::*;
fn main() {
    let server = tiny_http::Server::http("127.0.0.1:0").unwrap();
    let mut c = connect(&server);
    send(&mut c, b"GET /a HTTP/1.1\r\nHost: a\r\n\r\nGET /b HTTP/1.1\r\nHost: a\r\nExpect: bad\r\n\r\n");
    let r1 = server.recv().unwrap();
    std::thread::sleep(Duration::from_millis(600));
    r1.respond(tiny_http::Response::from_string("AAAA")).unwrap();
    let out = String::from_utf8_lossy(&read_available(&mut c)).to_string();
    let pa = out.find("AAAA");
    let p417 = out.find(" 417 ");
    let ok = match (pa, p417) { (Some(a), Some(b)) => a < b, _ => false };
    verdict(ok, &format!("positions in the client's byte stream: response to /a at {:?}, 417 at {:?}", pa, p417));
}
