//! F-C10-505: a request with an HTTP version above 1.1 must get a 505 promptly, must not be delivered,
//! and the connection must remain usable (a following valid request is served).
use std::time::Duration;
use verif_replay::*;
fn main() {
    let server = std::sync::Arc::new(tiny_http::Server::http("127.0.0.1:0").unwrap());
    let s2 = server.clone();
    let delivered = std::sync::Arc::new(std::sync::Mutex::new(Vec::new()));
    let d2 = delivered.clone();
    std::thread::spawn(move || {
        for rq in s2.incoming_requests() {
            d2.lock().unwrap().push(rq.url().to_string());
            let _ = rq.respond(tiny_http::Response::from_string("ok"));
        }
    });
    let mut c = connect(&server);
    c.set_read_timeout(Some(Duration::from_millis(1500))).unwrap();
    // `c10_version body`: the rejected request carries a body, which must be skipped, not parsed as the next request
    let with_body = std::env::args().nth(1).map_or(false, |a| a == "body");
    if with_body {
        send(&mut c, b"POST /a HTTP/2.0\r\nHost: a\r\nContent-Length: 27\r\n\r\nGET /hidden HTTP/1.1\r\nX: y\r\n");
    } else {
        send(&mut c, b"GET /a HTTP/2.0\r\nHost: a\r\n\r\n");
    }
    let mut buf = [0u8; 2048];
    use std::io::Read;
    let n1 = c.read(&mut buf).unwrap_or(0);
    let first = String::from_utf8_lossy(&buf[..n1]).to_string();
    send(&mut c, b"GET /b HTTP/1.1\r\nHost: a\r\n\r\n");
    let n2 = c.read(&mut buf).unwrap_or(0);
    let second = String::from_utf8_lossy(&buf[..n2]).to_string();
    let d = delivered.lock().unwrap().clone();
    let ok = first.starts_with("HTTP/1.1 505") && second.starts_with("HTTP/1.1 200") && d == vec!["/b".to_string()];
    verdict(ok, &format!("after `GET /a HTTP/2.0`: {:?}; after a following `GET /b HTTP/1.1`: {:?}; delivered: {:?}",
        first.lines().next(), second.lines().next(), d));
}
