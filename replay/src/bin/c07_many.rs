//! C07: every complete request of a connection is handed to the application exactly once, in wire order -- also the
//! 101st, 129th, 257th ... of a long-lived keep-alive connection.
use std::time::Duration;
use verif_replay::*;
fn main() {
    let n: usize = std::env::args().nth(1).and_then(|s| s.parse().ok()).unwrap_or(300);
    let server = tiny_http::Server::http("127.0.0.1:0").unwrap();
    let mut c = connect(&server);
    let mut seen = Vec::new();
    let mut k = 0;
    while k < n {
        // bursts of pipelined requests of growing size: 1, 2, 3, ...
        let burst = (seen.len() % 7 + 1).min(n - k);
        let mut msg = Vec::new();
        for j in 0..burst { msg.extend_from_slice(format!("GET /r{} HTTP/1.1\r\nHost: a\r\n\r\n", k + j).as_bytes()); }
        send(&mut c, &msg);
        for _ in 0..burst {
            match server.recv_timeout(Duration::from_millis(1500)).unwrap() {
                Some(rq) => { seen.push(rq.url().to_string()); let _ = rq.respond(tiny_http::Response::from_string("ok")); }
                None => { verdict(false, &format!("request #{} (/r{}) of a keep-alive connection was never delivered ({} delivered before it)", seen.len() + 1, seen.len(), seen.len())); }
            }
        }
        k += burst;
    }
    let extra = server.recv_timeout(Duration::from_millis(200)).unwrap().map(|r| r.url().to_string());
    let expect: Vec<String> = (0..n).map(|i| format!("/r{}", i)).collect();
    verdict(seen == expect && extra.is_none(), &format!("{} requests on one connection: delivered {} in order={}, extra={:?}", n, seen.len(), seen == expect, extra));
}
