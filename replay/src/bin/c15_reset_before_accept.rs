//! F-C15-peer-addr: a client that sends a complete request and RESETS the connection before the server has looked at
//! it.  `ClientConnection::new` stores the result of `peer_addr()` (ENOTCONN for a connection that was reset while
//! it sat in the accept queue), the bytes received before the reset are still readable, the request parses, and
//! `ClientConnection::read` then does `*self.remote_addr.as_ref().unwrap()`: a server thread panics.
use std::io::Write;
use std::net::TcpStream;
use std::os::unix::io::AsRawFd;
use std::sync::atomic::{AtomicUsize, Ordering};
use std::sync::Arc;
use verif_replay::*;

#[repr(C)]
struct Linger { l_onoff: i32, l_linger: i32 }
extern "C" { fn setsockopt(fd: i32, level: i32, name: i32, val: *const core::ffi::c_void, len: u32) -> i32; }
const SOL_SOCKET: i32 = 1;
const SO_LINGER: i32 = 13;

fn main() {
    let rounds: usize = std::env::args().nth(1).and_then(|s| s.parse().ok()).unwrap_or(3000);
    let panics = Arc::new(AtomicUsize::new(0));
    let first = Arc::new(std::sync::Mutex::new(String::new()));
    {
        let (p, f) = (panics.clone(), first.clone());
        std::panic::set_hook(Box::new(move |info| {
            if p.fetch_add(1, Ordering::SeqCst) == 0 { *f.lock().unwrap() = format!("{}", info); }
        }));
    }
    let server = Arc::new(tiny_http::Server::http("127.0.0.1:0").unwrap());
    let addr = server.server_addr().to_ip().unwrap();
    // the application: answer whatever arrives
    {
        let server = server.clone();
        std::thread::spawn(move || loop {
            match server.recv() { Ok(rq) => { let _ = rq.respond(tiny_http::Response::from_string("ok")); } Err(_) => break }
        });
    }
    for _ in 0..rounds {
        if let Ok(mut s) = TcpStream::connect(addr) {
            let _ = s.write_all(b"GET /x HTTP/1.1\r\nHost: a\r\n\r\n");
            let l = Linger { l_onoff: 1, l_linger: 0 };
            unsafe { setsockopt(s.as_raw_fd(), SOL_SOCKET, SO_LINGER, &l as *const _ as *const _, 8); }
            drop(s); // close with SO_LINGER 0: RST
        }
        if panics.load(Ordering::SeqCst) > 0 { break; }
    }
    std::thread::sleep(std::time::Duration::from_millis(300));
    // the server must still serve a well-behaved client
    let mut c = connect(&server);
    send(&mut c, b"GET /alive HTTP/1.1\r\nHost: a\r\nConnection: close\r\n\r\n");
    let answer = String::from_utf8_lossy(&read_available(&mut c)).to_string();
    let n = panics.load(Ordering::SeqCst);
    let _ = std::panic::take_hook();
    verdict(n == 0 && answer.starts_with("HTTP/1.1 200"), &format!("{} thread panic(s) inside the library after clients that reset right after sending a request ({}); afterwards: {:?}", n, first.lock().unwrap(), answer.lines().next()))
}
