//! F-C14-te-nan: a `TE` header with many elements, some carrying `q=NaN` (which `f32::from_str` accepts).
//! `choose_transfer_encoding` sorts the parsed list with `partial_cmp(..).unwrap_or(Equal)`, which is not a total order
//! once a NaN is present; `slice::sort_by` may then panic ("user-provided comparison function does not correctly
//! implement a total order") -- in the application thread that is answering the request.
use verif_replay::*;
fn main() {
    let n: usize = std::env::args().nth(1).and_then(|s| s.parse().ok()).unwrap_or(40);
    let server = tiny_http::Server::http("127.0.0.1:0").unwrap();
    let mut c = connect(&server);
    // deterministic mix of NaN and ordinary quality values
    let mut seed: u64 = 12345;
    let mut elems = Vec::new();
    for i in 0..n {
        seed = seed.wrapping_mul(6364136223846793005).wrapping_add(1442695040888963407);
        let r = (seed >> 33) % 10;
        elems.push(if r < 3 { format!("x{};q=NaN", i) } else { format!("x{};q=0.{}", i, r) });
    }
    send(&mut c, format!("GET /x HTTP/1.1\r\nHost: a\r\nTE: {}\r\n\r\n", elems.join(", ")).as_bytes());
    let rq = server.recv().unwrap();
    let res = std::thread::spawn(move || rq.respond(tiny_http::Response::from_string("ok"))).join();
    let answer = String::from_utf8_lossy(&read_available(&mut c)).to_string();
    match res {
        Err(_) => verdict(false, &format!("the thread answering the request PANICKED inside the library (TE header with {} elements, some q=NaN); client got {:?}", n, answer.lines().next())),
        Ok(r) => verdict(r.is_ok() && answer.starts_with("HTTP/1.1 200"), &format!("answered a TE header with {} elements, some q=NaN, without panicking: {:?}", n, answer.lines().next())),
    }
}
