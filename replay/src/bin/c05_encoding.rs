//! C05: chunked / identity selection, observed on the wire, over a matrix of request version, status, declared body
//! length, threshold and TE header.
use verif_replay::*;
fn expected(ver: &str, status: u16, len_known: bool, len: usize, thr: usize, te: Option<&str>) -> bool {
    if ver == "1.0" || status < 200 || status == 204 { return false; }
    if let Some(te) = te {
        // most preferred supported coding with q > 0
        let mut best: Option<(f32, bool)> = None;
        for e in te.split(',') {
            let mut p = e.split(';');
            let name = p.next().unwrap().trim().to_ascii_lowercase();
            let mut q = 1.0f32;
            for x in p { let x = x.trim_start(); if x.starts_with("q=") { if let Ok(v) = x[2..].trim().parse::<f32>() { q = v; break; } } }
            let sup = match name.as_str() { "chunked" => Some(true), "identity" => Some(false), _ => None };
            if let Some(ch) = sup { if q > 0.0 && best.map_or(true, |b| q > b.0) { best = Some((q, ch)); } }
        }
        if let Some((_, ch)) = best { return ch; }
    }
    !len_known || len >= thr
}
fn main() {
    let mut bad = Vec::new();
    let tes: [Option<&str>; 13] = [None, Some("chunked"), Some("identity"), Some("trailers"), Some("identity;q=0.5, chunked;q=0.9"), Some("chunked;q=0, identity"),
        Some("CHUNKED"), Some("identity;q=0.0005"), Some("x;q=NaN, chunked"),
        // a coding the server does not support is skipped, wherever it stands in the preference order (no ties here: the property does not rank them)
        Some("gzip, chunked;q=0.5"), Some("deflate;q=0.9, identity;q=0.2"), Some("trailers, chunked;q=0.8"), Some("gzip;q=1.0, identity;q=0.5, chunked;q=0.1")];
    for ver in ["1.0", "1.1"] { for status in [200u16, 204, 304, 404] { for (known, len) in [(true, 0usize), (true, 5), (true, 40), (false, 7)] { for thr in [0usize, 10, 32768] { for te in tes.iter() {
        let server = tiny_http::Server::http("127.0.0.1:0").unwrap();
        let mut c = connect(&server);
        let teh = te.map(|t| format!("TE: {}\r\n", t)).unwrap_or_default();
        send(&mut c, format!("GET /x HTTP/{}\r\nHost: a\r\n{}Connection: close\r\n\r\n", ver, teh).as_bytes());
        let rq = server.recv().unwrap();
        let body = vec![b'a'; len];
        let resp = tiny_http::Response::new(tiny_http::StatusCode(status), vec![], std::io::Cursor::new(body), if known { Some(len) } else { None }, None).with_chunked_threshold(thr);
        let _ = rq.respond(resp);
        let out = String::from_utf8_lossy(&read_available(&mut c)).to_string();
        let head = out.split("\r\n\r\n").next().unwrap_or("").to_ascii_lowercase();
        let chunked = has_header_token(&head, "transfer-encoding", "chunked");
        let has_cl = !header_values(&head, "content-length").is_empty();
        let want = expected(ver, status, known, len, thr, *te);
        if chunked != want || (chunked && has_cl) {
            bad.push(format!("HTTP/{} status {} len {:?} thr {} TE {:?}: chunked={} (expected {}), content-length present={}", ver, status, if known { Some(len) } else { None }, thr, te, chunked, want, has_cl));
        }
    } } } } }
    bad.truncate(4);
    verdict(bad.is_empty(), &format!("transfer-coding matrix: {}", if bad.is_empty() { "all as the property says".into() } else { bad.join(" | ") }));
}
