//! C09: after a request with a body the next request is parsed right after that body, whether or
//! not the application consumed it.  usage: c09_boundary <chunked|cl-large|cl-small> <read-n>
use std::io::Read;
use std::time::Duration;
use verif_replay::*;
fn main() {
    let kind = std::env::args().nth(1).unwrap_or_else(|| "chunked".into());
    let take: usize = std::env::args().nth(2).and_then(|s| s.parse().ok()).unwrap_or(0);
    let body = vec![b'z'; 3000];
    let mut msg: Vec<u8> = Vec::new();
    match kind.as_str() {
        "chunked" => {
            msg.extend_from_slice(b"POST /a HTTP/1.1\r\nHost: a\r\nTransfer-Encoding: chunked\r\n\r\n");
            msg.extend_from_slice(b"5dc\r\n"); msg.extend_from_slice(&body[..1500]); msg.extend_from_slice(b"\r\n");
            msg.extend_from_slice(b"5DC;ext=1\r\n"); msg.extend_from_slice(&body[1500..]); msg.extend_from_slice(b"\r\n0\r\n\r\n");
        }
        "cl-large" => { msg.extend_from_slice(b"POST /a HTTP/1.1\r\nHost: a\r\nContent-Length: 3000\r\n\r\n"); msg.extend_from_slice(&body); }
        _ => { msg.extend_from_slice(b"POST /a HTTP/1.1\r\nHost: a\r\nContent-Length: 300\r\n\r\n"); msg.extend_from_slice(&body[..300]); }
    }
    msg.extend_from_slice(b"GET /b HTTP/1.1\r\nHost: a\r\n\r\n");
    let server = tiny_http::Server::http("127.0.0.1:0").unwrap();
    let mut c = connect(&server);
    send(&mut c, &msg);
    let mut rq = server.recv().unwrap();
    let mut buf = vec![0u8; take];
    if take > 0 { rq.as_reader().read_exact(&mut buf).unwrap(); }
    rq.respond(tiny_http::Response::from_string("A")).unwrap();
    let second = server.recv_timeout(Duration::from_millis(800)).unwrap();
    let url = second.as_ref().map(|r| r.url().to_string());
    if let Some(r) = second { let _ = r.respond(tiny_http::Response::from_string("B")); }
    let out = String::from_utf8_lossy(&read_available(&mut c)).to_string();
    verdict(url.as_deref() == Some("/b") && !out.contains(" 400 "), &format!("{} body, application read {} bytes then answered: next request delivered = {:?}", kind, take, url));
}
