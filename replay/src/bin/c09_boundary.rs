//! C09: after a request with a body the next request is parsed right after that body, whether or
//! not the application consumed it.  usage: c09_boundary <kind> <read-n> | c09_boundary all
//! kinds: chunked, cl-large, cl-small, http10-keepalive (HTTP/1.0 + Connection: keep-alive, 3000-byte body),
//!        close-then-more (Connection: close with a body: the connection ends, the body is never parsed as a request),
//!        v2-close (HTTP/2.0 + Connection: close + a body that looks like a request: 505, then the next request is served)
use std::io::Read;
use std::time::Duration;
use verif_replay::*;
fn run(kind: &str, take: usize) -> (bool, String) {
    let mut body = vec![b'z'; 3000];
    let fake = b"GET /smuggled HTTP/1.1\r\nHost: a\r\n\r\n";
    let mut msg: Vec<u8> = Vec::new();
    let mut next_line = "GET /b HTTP/1.1\r\nHost: a\r\n\r\n".to_string();
    match kind {
        "chunked" => {
            msg.extend_from_slice(b"POST /a HTTP/1.1\r\nHost: a\r\nTransfer-Encoding: chunked\r\n\r\n");
            msg.extend_from_slice(b"5dc\r\n"); msg.extend_from_slice(&body[..1500]); msg.extend_from_slice(b"\r\n");
            msg.extend_from_slice(b"5DC;ext=1\r\n"); msg.extend_from_slice(&body[1500..]); msg.extend_from_slice(b"\r\n0\r\n\r\n");
        }
        "cl-large" => { msg.extend_from_slice(b"POST /a HTTP/1.1\r\nHost: a\r\nContent-Length: 3000\r\n\r\n"); msg.extend_from_slice(&body); }
        "http10-keepalive" => {
            body[..fake.len()].copy_from_slice(fake);
            msg.extend_from_slice(b"POST /a HTTP/1.0\r\nHost: a\r\nConnection: keep-alive\r\nContent-Length: 3000\r\n\r\n"); msg.extend_from_slice(&body);
            next_line = "GET /b HTTP/1.0\r\nHost: a\r\nConnection: keep-alive\r\n\r\n".to_string();
        }
        "v2-close" => {
            body[..fake.len()].copy_from_slice(fake);
            msg.extend_from_slice(b"POST /a HTTP/2.0\r\nHost: a\r\nConnection: close\r\nContent-Length: 3000\r\n\r\n"); msg.extend_from_slice(&body);
        }
        "close-then-more" => {
            body[..fake.len()].copy_from_slice(fake);
            msg.extend_from_slice(b"POST /a HTTP/1.1\r\nHost: a\r\nConnection: close\r\nContent-Length: 3000\r\n\r\n"); msg.extend_from_slice(&body);
        }
        _ => { msg.extend_from_slice(b"POST /a HTTP/1.1\r\nHost: a\r\nContent-Length: 300\r\n\r\n"); msg.extend_from_slice(&body[..300]); }
    }
    msg.extend_from_slice(next_line.as_bytes());
    let server = tiny_http::Server::http("127.0.0.1:0").unwrap();
    let mut c = connect(&server);
    send(&mut c, &msg);
    let mut seen = Vec::new();
    if kind != "v2-close" {
        let mut rq = match server.recv_timeout(Duration::from_millis(1500)).unwrap() { Some(r) => r, None => return (false, format!("{}: first request not delivered", kind)) };
        seen.push(rq.url().to_string());
        let mut buf = vec![0u8; take];
        if take > 0 { rq.as_reader().read_exact(&mut buf).unwrap(); }
        rq.respond(tiny_http::Response::from_string("A")).unwrap();
    }
    while let Some(r) = server.recv_timeout(Duration::from_millis(700)).unwrap() { seen.push(r.url().to_string()); let _ = r.respond(tiny_http::Response::from_string("B")); }
    let out = String::from_utf8_lossy(&read_available(&mut c)).to_string();
    let want: Vec<&str> = match kind { "v2-close" => vec!["/b"], "close-then-more" => vec!["/a"], _ => vec!["/a", "/b"] };
    let ok = seen == want && !out.contains(" 400 ") && (kind != "v2-close" || out.starts_with("HTTP/1.1 505"));
    (ok, format!("{} body, application read {} bytes then answered: delivered {:?} (expected {:?}); first status line {:?}", kind, take, seen, want, out.lines().next()))
}
fn main() {
    let kind = std::env::args().nth(1).unwrap_or_else(|| "chunked".into());
    if kind == "all" {
        let mut bad = Vec::new();
        for (k, t) in [("chunked", 0usize), ("chunked", 100), ("cl-large", 0), ("cl-large", 10), ("cl-small", 0), ("http10-keepalive", 0), ("http10-keepalive", 10), ("close-then-more", 0), ("v2-close", 0)] {
            let (ok, what) = run(k, t);
            if !ok { bad.push(what); }
        }
        verdict(bad.is_empty(), &if bad.is_empty() { "9 body/boundary cases: the next request starts right after the body".into() } else { bad.join(" | ") });
    }
    let take: usize = std::env::args().nth(2).and_then(|s| s.parse().ok()).unwrap_or(0);
    let (ok, what) = run(&kind, take);
    verdict(ok, &what);
}
