//! C14: resources are bounded by what the client SENT, not by what it declared: the application reads the body of a request that
//! declares 256 MiB / 2^63 bytes (or an enormous chunk) but carries 5 bytes, with each of the std reading styles; the largest single
//! allocation made by the process must stay small and no thread may panic.
use std::alloc::{GlobalAlloc, Layout, System};
use std::io::Read;
use std::sync::atomic::{AtomicUsize, Ordering};
use verif_replay::*;
struct Counting;
static MAX_ALLOC: AtomicUsize = AtomicUsize::new(0);
unsafe impl GlobalAlloc for Counting {
    unsafe fn alloc(&self, l: Layout) -> *mut u8 { MAX_ALLOC.fetch_max(l.size(), Ordering::Relaxed); System.alloc(l) }
    unsafe fn dealloc(&self, p: *mut u8, l: Layout) { System.dealloc(p, l) }
    unsafe fn realloc(&self, p: *mut u8, l: Layout, n: usize) -> *mut u8 { MAX_ALLOC.fetch_max(n, Ordering::Relaxed); System.realloc(p, l, n) }
}
#[global_allocator]
static A: Counting = Counting;
const LIMIT: usize = 8 << 20;
fn main() {
    let mut bad = Vec::new();
    let framings: [(&str, String); 3] = [
        ("Content-Length 268435456", "Content-Length: 268435456\r\n\r\nhello".to_string()),
        ("Content-Length 2^63", "Content-Length: 9223372036854775808\r\n\r\nhello".to_string()),
        ("chunked, chunk size 7fffffffffffffff", "Transfer-Encoding: chunked\r\n\r\n7fffffffffffffff\r\nhello".to_string()),
    ];
    for (fname, framing) in framings.iter() {
        for style in ["read_to_end", "read_to_string", "read 64 KiB at a time", "bytes()", "drop unread"] {
            let server = tiny_http::Server::http("127.0.0.1:0").unwrap();
            let mut c = connect(&server);
            send(&mut c, format!("POST /x HTTP/1.1\r\nHost: a\r\nConnection: close\r\n{}", framing).as_bytes());
            c.shutdown(std::net::Shutdown::Write).unwrap();
            let mut rq = match server.recv_timeout(std::time::Duration::from_millis(1500)).unwrap() { Some(rq) => rq, None => continue };   // refused outright: fine
            MAX_ALLOC.store(0, Ordering::Relaxed);
            let st = style.to_string();
            let res = std::thread::spawn(move || {
                let mut n = 0usize;
                match st.as_str() {
                    "read_to_end" => { let mut v = Vec::new(); let _ = rq.as_reader().read_to_end(&mut v); n = v.len(); }
                    "read_to_string" => { let mut s = String::new(); let _ = rq.as_reader().read_to_string(&mut s); n = s.len(); }
                    "read 64 KiB at a time" => { let mut b = vec![0u8; 65536]; while let Ok(k) = rq.as_reader().read(&mut b) { if k == 0 { break; } n += k; } }
                    "bytes()" => { n = rq.as_reader().bytes().take_while(|b| b.is_ok()).count(); }
                    _ => {}
                }
                let _ = rq.respond(tiny_http::Response::from_string("ok"));
                n
            }).join();
            let peak = MAX_ALLOC.load(Ordering::Relaxed);
            let _ = read_available(&mut c);
            match res {
                Err(_) => bad.push(format!("{} / {}: the thread reading the body PANICKED inside the library", fname, style)),
                Ok(n) => if peak > LIMIT || n > 5 { bad.push(format!("{} / {}: largest single allocation {} bytes for a body of 5 bytes sent ({} bytes read)", fname, style, peak, n)) },
            }
        }
    }
    verdict(bad.is_empty(), &if bad.is_empty() { "3 over-declared framings x 5 reading styles: allocations stay below 8 MiB, no panic".into() } else { bad.join(" | ") });
}
