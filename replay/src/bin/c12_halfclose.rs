//! C12 / C15: a client that half-closes (shuts down its sending side) after a complete request still receives the
//! response: the server must not close its sending side because the client closed its own.
use verif_replay::*;
fn main() {
    let server = tiny_http::Server::http("127.0.0.1:0").unwrap();
    let mut c = connect(&server);
    send(&mut c, b"GET /x HTTP/1.1\r\nHost: a\r\n\r\n");
    c.shutdown(std::net::Shutdown::Write).unwrap();
    let rq = server.recv().unwrap();
    std::thread::sleep(std::time::Duration::from_millis(300));   // the connection thread sees EOF meanwhile
    let r = rq.respond(tiny_http::Response::from_string("still here"));
    let out = String::from_utf8_lossy(&read_available(&mut c)).to_string();
    verdict(r.is_ok() && out.starts_with("HTTP/1.1 200") && out.ends_with("still here"), &format!("after a client half-close: respond ok={}, client received {:?}", r.is_ok(), out.lines().next()));
}
