//! Assumption audit (a TEST of assumptions, not a proof, and not about /repo): the contracts that prelude/split.rs, trim.rs and
//! str.rs ASSUME for std functions, restated as executable predicates, are compared with what the installed std really does, for
//! EVERY string of length <= 5 over a 12-character alphabet (separators, blanks, digits, signs, letters of both cases, a non-ASCII
//! letter and a non-ASCII blank), plus hand-picked long numerals.  Prints AUDIT-OK <cases> or AUDIT-MISMATCH <what>.
use std::str::FromStr;
const ALPHA: [char; 12] = [' ', '\t', 'a', 'Z', ':', ',', ';', '+', '-', '0', '9', '\u{e9}'];
const EXTRA: [char; 1] = ['\u{a0}'];

fn head_tail(s: &[char], c: char) -> (Vec<char>, Option<Vec<char>>) {
    match s.iter().position(|&x| x == c) { None => (s.to_vec(), None), Some(k) => (s[..k].to_vec(), Some(s[k + 1..].to_vec())) }
}
fn chars(s: &str) -> Vec<char> { s.chars().collect() }
fn lower_char(c: char) -> char { if ('A'..='Z').contains(&c) { ((c as u8) + 32) as char } else { c } }
fn upper_char(c: char) -> char { if ('a'..='z').contains(&c) { ((c as u8) - 32) as char } else { c } }
fn parse_usize_spec(s: &[char]) -> Option<usize> {
    let d = if !s.is_empty() && s[0] == '+' { &s[1..] } else { s };
    if d.is_empty() || !d.iter().all(|c| ('0'..='9').contains(c)) { return None; }
    let mut v: u128 = 0;
    for c in d { v = v.checked_mul(10)?.checked_add((*c as u8 - b'0') as u128)?; if v > usize::MAX as u128 { return None; } }
    Some(v as usize)
}
fn check(s: &str, bad: &mut Vec<String>, n: &mut u64) {
    let cs = chars(s);
    let mut fail = |what: String| { if bad.len() < 5 { bad.push(format!("{:?}: {}", s, what)); } };
    for sep in [' ', ':', ',', ';'] {
        // split(c): iterated head_of / tail_of; an empty text still yields one part
        let mut model = Vec::new();
        let mut rest = Some(cs.clone());
        while let Some(r) = rest { let (h, t) = head_tail(&r, sep); model.push(h); rest = t; }
        let real: Vec<Vec<char>> = s.split(sep).map(chars).collect();
        if real != model { fail(format!("split({:?}) = {:?}, model {:?}", sep, real, model)); }
        // splitn(n, c)
        for k in 0..4usize {
            let mut model = Vec::new();
            let mut rest = Some(cs.clone());
            let mut left = k;
            while let Some(r) = rest.clone() {
                if left == 0 { break; }
                if left == 1 { model.push(r); rest = None; } else { let (h, t) = head_tail(&r, sep); model.push(h); rest = t; left -= 1; }
            }
            let real: Vec<Vec<char>> = s.splitn(k, sep).map(chars).collect();
            if real != model { fail(format!("splitn({}, {:?}) = {:?}, model {:?}", k, sep, real, model)); }
        }
        // split_once(char)
        let (h, t) = head_tail(&cs, sep);
        let real = s.split_once(sep).map(|(a, b)| (chars(a), chars(b)));
        if real != t.map(|t| (h, t)) { fail(format!("split_once({:?})", sep)); }
        // starts_with(char)
        if s.starts_with(sep) != (!cs.is_empty() && cs[0] == sep) { fail(format!("starts_with({:?})", sep)); }
        *n += 7;
    }
    // split_once(&str), contains(&str), starts_with(&str)
    for p in ["q=", ": ", "a", ""] {
        let pc = chars(p);
        let first = (0..=cs.len().saturating_sub(pc.len())).find(|&k| k + pc.len() <= cs.len() && cs[k..k + pc.len()] == pc[..]);
        let real = s.split_once(p).map(|(a, b)| (chars(a), chars(b)));
        let model = first.map(|k| (cs[..k].to_vec(), cs[k + pc.len()..].to_vec()));
        if real != model { fail(format!("split_once({:?}) = {:?}, model {:?}", p, real, model)); }
        if s.contains(p) != first.is_some() { fail(format!("contains({:?})", p)); }
        if s.starts_with(p) != (cs.len() >= pc.len() && cs[..pc.len()] == pc[..]) { fail(format!("starts_with({:?})", p)); }
        *n += 3;
    }
    // trim / trim_end / trim_start: ALL white space at the respective end(s) removed and nothing else
    let ws = |c: char| c.is_whitespace();
    let a = cs.iter().position(|&c| !ws(c)).unwrap_or(cs.len());
    let b = cs.iter().rposition(|&c| !ws(c)).map_or(a, |i| i + 1);
    if chars(s.trim()) != cs[a..b].to_vec() { fail("trim".into()); }
    let e = cs.iter().rposition(|&c| !ws(c)).map_or(0, |i| i + 1);
    if chars(s.trim_end()) != cs[..e].to_vec() { fail("trim_end".into()); }
    if chars(s.trim_start()) != cs[a..].to_vec() { fail("trim_start".into()); }
    // case mapping and case-insensitive comparison are per-character ASCII mappings
    if chars(&s.to_ascii_lowercase()) != cs.iter().map(|&c| lower_char(c)).collect::<Vec<_>>() { fail("to_ascii_lowercase".into()); }
    if chars(&s.to_ascii_uppercase()) != cs.iter().map(|&c| upper_char(c)).collect::<Vec<_>>() { fail("to_ascii_uppercase".into()); }
    let flipped: String = cs.iter().map(|&c| if c.is_ascii_lowercase() { upper_char(c) } else { lower_char(c) }).collect();
    if !s.eq_ignore_ascii_case(&flipped) { fail("eq_ignore_ascii_case (case-flipped copy)".into()); }
    let other: String = cs.iter().rev().collect();
    let model_eq = cs.iter().map(|&c| lower_char(c)).collect::<Vec<_>>() == other.chars().map(lower_char).collect::<Vec<_>>();
    if s.eq_ignore_ascii_case(&other) != model_eq { fail("eq_ignore_ascii_case (reversed copy)".into()); }
    // usize::from_str: optional `+`, then one or more ASCII digits, the value must fit
    if usize::from_str(s).ok() != parse_usize_spec(&cs) { fail(format!("usize::from_str = {:?}, model {:?}", usize::from_str(s).ok(), parse_usize_spec(&cs))); }
    *n += 9;
}
// ---- A-FLOAT (prelude/float.rs): the model of f32 ordering, restated executably ----
// fkey: a witness of the order-embedding the prelude postulates (sign-magnitude bits -> integers, -0.0 and +0.0 alike)
fn fkey(x: f32) -> i64 { let b = x.to_bits(); let m = (b & 0x7fff_ffff) as i64; if b >> 31 == 1 { -m } else { m } }
fn int_cmp(a: i64, b: i64) -> std::cmp::Ordering { a.cmp(&b) }
fn fcmp_model(a: f32, b: f32) -> Option<std::cmp::Ordering> { if a.is_nan() || b.is_nan() { None } else { Some(int_cmp(fkey(a), fkey(b))) } }
fn audit_float(bad: &mut Vec<String>, n: &mut u64) {
    use std::cmp::Ordering;
    let mut xs: Vec<f32> = vec![0.0, -0.0, 1.0, -1.0, 0.5, 0.001, 1.5, 2.0, f32::MIN_POSITIVE, -f32::MIN_POSITIVE, f32::MAX, f32::MIN, f32::INFINITY,
        f32::NEG_INFINITY, f32::NAN, -f32::NAN, f32::from_bits(1), f32::from_bits(0x8000_0001), f32::from_bits(0x7fc0_0001), f32::from_bits(0xffff_ffff),
        f32::from_bits(0x7f80_0001), f32::EPSILON, 1.0 + f32::EPSILON, 1.0 - f32::EPSILON / 2.0];
    // plus what f32::from_str yields on the texts a TE header can carry
    for t in ["0", "-0", "1", "0.5", "1e39", "-1e39", "1e-50", "NaN", "nan", "inf", "-inf", "infinity", "+1", ".5", "5.", "1e0"] { if let Ok(v) = t.parse::<f32>() { xs.push(v); } }
    let mut z: u32 = 0x9e37_79b9;
    for _ in 0..1500 { z ^= z << 13; z ^= z >> 17; z ^= z << 5; xs.push(f32::from_bits(z)); }
    for &a in &xs { for &b in &xs {
        if a.partial_cmp(&b) != fcmp_model(a, b) { bad.push(format!("partial_cmp({:?},{:?}) = {:?}, model {:?}", a, b, a.partial_cmp(&b), fcmp_model(a, b))); }
        let le = matches!(fcmp_model(a, b), Some(Ordering::Less) | Some(Ordering::Equal));
        if (a <= b) != le { bad.push(format!("{:?} <= {:?} is {}, model {}", a, b, a <= b, le)); }
        *n += 2;
    } }
    // slice::sort_by with a comparator that IS the order of a key (the precondition of verif_sort_by): sorted permutation, no panic;
    // Vec::retain keeps, in order, exactly the accepted elements
    let mut z: u32 = 12345;
    for len in 0..200usize {
        let mut v: Vec<(usize, f32)> = (0..len).map(|i| { z ^= z << 13; z ^= z >> 17; z ^= z << 5; (i, xs[(z as usize) % xs.len()]) }).collect();
        let before = v.clone();
        v.retain(|e| !e.1.is_nan());
        let kept: Vec<(usize, f32)> = before.iter().cloned().filter(|e| !e.1.is_nan()).collect();
        if v.len() != kept.len() || v.iter().zip(kept.iter()).any(|(a, b)| a.0 != b.0) { bad.push(format!("retain: len {} kept differently", len)); }
        let unsorted = v.clone();
        v.sort_by(|a, b| b.1.partial_cmp(&a.1).unwrap_or(Ordering::Equal));
        let mut ids: Vec<usize> = v.iter().map(|e| e.0).collect(); ids.sort();
        let mut ids0: Vec<usize> = unsorted.iter().map(|e| e.0).collect(); ids0.sort();
        if ids != ids0 { bad.push(format!("sort_by: len {} not a permutation", len)); }
        if v.windows(2).any(|w| -fkey(w[0].1) > -fkey(w[1].1)) { bad.push(format!("sort_by: len {} not in key order", len)); }
        *n += 3;
    }
}
fn main() {
    let mut bad = Vec::new();
    let mut n = 0u64;
    let alpha: Vec<char> = ALPHA.iter().chain(EXTRA.iter()).cloned().collect();
    let mut idx = vec![];
    loop {
        let s: String = idx.iter().map(|&i: &usize| alpha[i]).collect();
        check(&s, &mut bad, &mut n);
        // next string in length-lexicographic order, length <= 5
        let mut k = idx.len();
        loop {
            if k == 0 { idx = vec![0; idx.len() + 1]; break; }
            k -= 1;
            if idx[k] + 1 < alpha.len() { idx[k] += 1; for j in k + 1..idx.len() { idx[j] = 0; } break; }
        }
        if idx.len() > 5 { break; }
    }
    for s in ["18446744073709551615", "18446744073709551616", "+18446744073709551615", "00000000000000000000000000000000000007", "340282366920938463463374607431768211456", "1_000", "0x10", "１２", " 1", "1 ", "+", "-0", "+-1", "++1"] {
        check(s, &mut bad, &mut n);
    }
    audit_float(&mut bad, &mut n);
    if bad.is_empty() { println!("AUDIT-OK {} comparisons, strings of length <= 5 over {} characters", n, alpha.len()); } else { println!("AUDIT-MISMATCH {}", bad.join(" | ")); std::process::exit(1); }
}
