//! Assumption audit (a TEST of assumptions, not a proof, and not about /repo): the contracts that prelude/split.rs, trim.rs and
//! str.rs ASSUME for std functions, restated as executable predicates, are compared with what the installed std really does, for
//! EVERY string of length <= 5 over a 12-character alphabet (separators, blanks, digits, signs, letters of both cases, a non-ASCII
//! letter and a non-ASCII blank), plus hand-picked long numerals.  Prints AUDIT-OK <cases> or AUDIT-MISMATCH <what>.
use std::str::FromStr;
const ALPHA: [char; 12] = [' ', '\t', 'a', 'Z', ':', ',', ';', '+', '-', '0', '9', '\u{e9}'];
const EXTRA: [char; 1] = ['\u{a0}'];

fn head_tail(s: &[char], c: char) -> (Vec<char>, Option<Vec<char>>) {
    match s.iter().position(|&x| x == c) { None => (s.to_vec(), None), Some(k) => (s[..k].to_vec(), Some(s[k + 1..].to_vec())) }
}
fn chars(s: &str) -> Vec<char> { s.chars().collect() }
fn lower_char(c: char) -> char { if ('A'..='Z').contains(&c) { ((c as u8) + 32) as char } else { c } }
fn upper_char(c: char) -> char { if ('a'..='z').contains(&c) { ((c as u8) - 32) as char } else { c } }
fn parse_usize_spec(s: &[char]) -> Option<usize> {
    let d = if !s.is_empty() && s[0] == '+' { &s[1..] } else { s };
    if d.is_empty() || !d.iter().all(|c| ('0'..='9').contains(c)) { return None; }
    let mut v: u128 = 0;
    for c in d { v = v.checked_mul(10)?.checked_add((*c as u8 - b'0') as u128)?; if v > usize::MAX as u128 { return None; } }
    Some(v as usize)
}
fn check(s: &str, bad: &mut Vec<String>, n: &mut u64) {
    let cs = chars(s);
    let mut fail = |what: String| { if bad.len() < 5 { bad.push(format!("{:?}: {}", s, what)); } };
    for sep in [' ', ':', ',', ';'] {
        // split(c): iterated head_of / tail_of; an empty text still yields one part
        let mut model = Vec::new();
        let mut rest = Some(cs.clone());
        while let Some(r) = rest { let (h, t) = head_tail(&r, sep); model.push(h); rest = t; }
        let real: Vec<Vec<char>> = s.split(sep).map(chars).collect();
        if real != model { fail(format!("split({:?}) = {:?}, model {:?}", sep, real, model)); }
        // splitn(n, c)
        for k in 0..4usize {
            let mut model = Vec::new();
            let mut rest = Some(cs.clone());
            let mut left = k;
            while let Some(r) = rest.clone() {
                if left == 0 { break; }
                if left == 1 { model.push(r); rest = None; } else { let (h, t) = head_tail(&r, sep); model.push(h); rest = t; left -= 1; }
            }
            let real: Vec<Vec<char>> = s.splitn(k, sep).map(chars).collect();
            if real != model { fail(format!("splitn({}, {:?}) = {:?}, model {:?}", k, sep, real, model)); }
        }
        // split_once(char)
        let (h, t) = head_tail(&cs, sep);
        let real = s.split_once(sep).map(|(a, b)| (chars(a), chars(b)));
        if real != t.map(|t| (h, t)) { fail(format!("split_once({:?})", sep)); }
        // starts_with(char)
        if s.starts_with(sep) != (!cs.is_empty() && cs[0] == sep) { fail(format!("starts_with({:?})", sep)); }
        *n += 7;
    }
    // split_once(&str), contains(&str), starts_with(&str)
    for p in ["q=", ": ", "a", ""] {
        let pc = chars(p);
        let first = (0..=cs.len().saturating_sub(pc.len())).find(|&k| k + pc.len() <= cs.len() && cs[k..k + pc.len()] == pc[..]);
        let real = s.split_once(p).map(|(a, b)| (chars(a), chars(b)));
        let model = first.map(|k| (cs[..k].to_vec(), cs[k + pc.len()..].to_vec()));
        if real != model { fail(format!("split_once({:?}) = {:?}, model {:?}", p, real, model)); }
        if s.contains(p) != first.is_some() { fail(format!("contains({:?})", p)); }
        if s.starts_with(p) != (cs.len() >= pc.len() && cs[..pc.len()] == pc[..]) { fail(format!("starts_with({:?})", p)); }
        *n += 3;
    }
    // trim / trim_end / trim_start: ALL white space at the respective end(s) removed and nothing else
    let ws = |c: char| c.is_whitespace();
    let a = cs.iter().position(|&c| !ws(c)).unwrap_or(cs.len());
    let b = cs.iter().rposition(|&c| !ws(c)).map_or(a, |i| i + 1);
    if chars(s.trim()) != cs[a..b].to_vec() { fail("trim".into()); }
    let e = cs.iter().rposition(|&c| !ws(c)).map_or(0, |i| i + 1);
    if chars(s.trim_end()) != cs[..e].to_vec() { fail("trim_end".into()); }
    if chars(s.trim_start()) != cs[a..].to_vec() { fail("trim_start".into()); }
    // case mapping and case-insensitive comparison are per-character ASCII mappings
    if chars(&s.to_ascii_lowercase()) != cs.iter().map(|&c| lower_char(c)).collect::<Vec<_>>() { fail("to_ascii_lowercase".into()); }
    if chars(&s.to_ascii_uppercase()) != cs.iter().map(|&c| upper_char(c)).collect::<Vec<_>>() { fail("to_ascii_uppercase".into()); }
    let flipped: String = cs.iter().map(|&c| if c.is_ascii_lowercase() { upper_char(c) } else { lower_char(c) }).collect();
    if !s.eq_ignore_ascii_case(&flipped) { fail("eq_ignore_ascii_case (case-flipped copy)".into()); }
    let other: String = cs.iter().rev().collect();
    let model_eq = cs.iter().map(|&c| lower_char(c)).collect::<Vec<_>>() == other.chars().map(lower_char).collect::<Vec<_>>();
    if s.eq_ignore_ascii_case(&other) != model_eq { fail("eq_ignore_ascii_case (reversed copy)".into()); }
    // usize::from_str: optional `+`, then one or more ASCII digits, the value must fit
    if usize::from_str(s).ok() != parse_usize_spec(&cs) { fail(format!("usize::from_str = {:?}, model {:?}", usize::from_str(s).ok(), parse_usize_spec(&cs))); }
    *n += 9;
}
fn main() {
    let mut bad = Vec::new();
    let mut n = 0u64;
    let alpha: Vec<char> = ALPHA.iter().chain(EXTRA.iter()).cloned().collect();
    let mut idx = vec![];
    loop {
        let s: String = idx.iter().map(|&i: &usize| alpha[i]).collect();
        check(&s, &mut bad, &mut n);
        // next string in length-lexicographic order, length <= 5
        let mut k = idx.len();
        loop {
            if k == 0 { idx = vec![0; idx.len() + 1]; break; }
            k -= 1;
            if idx[k] + 1 < alpha.len() { idx[k] += 1; for j in k + 1..idx.len() { idx[j] = 0; } break; }
        }
        if idx.len() > 5 { break; }
    }
    for s in ["18446744073709551615", "18446744073709551616", "+18446744073709551615", "00000000000000000000000000000000000007", "340282366920938463463374607431768211456", "1_000", "0x10", "１２", " 1", "1 ", "+", "-0", "+-1", "++1"] {
        check(s, &mut bad, &mut n);
    }
    if bad.is_empty() { println!("AUDIT-OK {} comparisons, strings of length <= 5 over {} characters", n, alpha.len()); } else { println!("AUDIT-MISMATCH {}", bad.join(" | ")); std::process::exit(1); }
}
