//! F-C14-alloc: a declared Content-Length far beyond what is sent, handler answers without reading.
//! Run as a child process by the check: an abort (SIGABRT, "memory allocation failed") is the violation.
use std::io::Read;
use verif_replay::*;
fn main() {
    let cl = std::env::args().nth(1).unwrap_or_else(|| "99999999999999999".to_string());
    let server = tiny_http::Server::http("127.0.0.1:0").unwrap();
    let mut c = connect(&server);
    send(&mut c, format!("POST /x HTTP/1.1\r\nHost: a\r\nContent-Length: {}\r\n\r\nabc", cl).as_bytes());
    let rq = server.recv().unwrap();
    // client goes away after its 3 bytes; the handler answers without reading the body
    c.shutdown(std::net::Shutdown::Write).unwrap();
    rq.respond(tiny_http::Response::from_string("ok")).unwrap();
    let mut v = Vec::new();
    let _ = c.read_to_end(&mut v);
    verdict(true, "process survived a huge declared Content-Length");
}
