//! C02: the request handed to the application reports the method token, target, version and header list that were sent.
//! A small matrix of valid heads: extension / lower-case method tokens, targets with unusual characters, header values with
//! colons, inner whitespace, no space after the colon, empty values, duplicate names, and a head longer than 1 KiB.
use std::time::Duration;
use verif_replay::*;
fn main() {
    let long = "v".repeat(1500);
    let cases: Vec<(&str, &str, &str, Vec<(String, String)>)> = vec![
        ("GET", "/plain", "1.1", vec![("Host".into(), "a".into())]),
        ("get", "/lower", "1.1", vec![("Host".into(), "a".into())]),
        ("Patch", "/mixed", "1.1", vec![("Host".into(), "a".into())]),
        ("PROPFIND", "/a%20b?x=1&y=;:@", "1.0", vec![("Host".into(), "a".into())]),
        ("GET", "*", "1.1", vec![("Host".into(), "localhost:8080".into()), ("X-Stamp".into(), "12: 30".into())]),
        ("GET", "/nospace", "1.1", vec![("Host".into(), "a".into()), ("Accept".into(), "*/*".into()), ("X-Empty".into(), "".into())]),
        ("GET", "/dup", "1.1", vec![("X-A".into(), "1".into()), ("x-a".into(), "2".into()), ("X-A".into(), "1".into()), ("X-In".into(), "a  b\tc".into())]),
        ("GET", "/long", "1.1", vec![("Host".into(), "a".into()), ("X-Long".into(), long.clone()), ("X-After".into(), "z".into())]),
        // values of headers the library itself interprets are reported in the letter case they were sent in
        ("GET", "/case", "1.1", vec![("Host".into(), "A.Example".into()), ("Connection".into(), "Keep-Alive, TE".into()), ("TE".into(), "Trailers".into()), ("Content-Type".into(), "Text/HTML; Charset=UTF-8".into()), ("Upgrade-Insecure-Requests".into(), "1".into())]),
        ("GET", "/case10", "1.0", vec![("connection".into(), "KEEP-ALIVE".into()), ("Accept-Encoding".into(), "GZip, Identity".into())]),
    ];
    let mut bad = Vec::new();
    for (i, (m, target, ver, hdrs)) in cases.iter().enumerate() {
        let server = tiny_http::Server::http("127.0.0.1:0").unwrap();
        let mut c = connect(&server);
        let mut msg = format!("{} {} HTTP/{}\r\n", m, target, ver);
        for (k, (n, v)) in hdrs.iter().enumerate() {
            // alternate `Name: v` and `Name:v` (the space after the colon is optional)
            if k % 2 == 0 { msg += &format!("{}: {}\r\n", n, v); } else { msg += &format!("{}:{}\r\n", n, v); }
        }
        msg += "Connection: close\r\n\r\n";
        send(&mut c, msg.as_bytes());
        match server.recv_timeout(Duration::from_millis(800)).unwrap() {
            None => bad.push(format!("case {}: valid head not delivered", i)),
            Some(rq) => {
                let got_h: Vec<(String, String)> = rq.headers().iter().map(|h| (h.field.as_str().as_str().to_string(), h.value.as_str().to_string())).collect();
                let mut want_h: Vec<(String, String)> = hdrs.iter().map(|(n, v)| (n.clone(), v.trim().to_string())).collect();
                want_h.push(("Connection".into(), "close".into()));
                let ver_ok = format!("{}", rq.http_version()).ends_with(ver);
                if rq.method().as_str() != *m || rq.url() != *target || !ver_ok || got_h != want_h {
                    bad.push(format!("case {}: sent ({:?}, {:?}, {:?}, {} headers) reported ({:?}, {:?}, {}, {:?})", i, m, target, ver, want_h.len(), rq.method().as_str(), rq.url(), rq.http_version(),
                        got_h.iter().map(|(n, v)| format!("{}={}", n, if v.len() > 20 { &v[..20] } else { v })).collect::<Vec<_>>()));
                }
                let _ = rq.respond(tiny_http::Response::from_string("ok"));
            }
        }
    }
    verdict(bad.is_empty(), &format!("head fidelity over {} valid heads: {}", cases.len(), if bad.is_empty() { "all reported as sent".into() } else { bad.join(" | ") }));
}
