//! C15: a client that vanishes inside a large (streamed) body: answering, reading and dropping the request all
//! return (no hang), and the server keeps serving.
use std::io::Read;
use std::time::Duration;
use verif_replay::*;
fn main() {
    let server = std::sync::Arc::new(tiny_http::Server::http("127.0.0.1:0").unwrap());
    let mut bad = Vec::new();
    for mode in ["respond", "read", "drop"] {
        let mut c = connect(&server);
        send(&mut c, b"POST /big HTTP/1.1\r\nHost: a\r\nContent-Length: 50000\r\n\r\npartial");
        let mut rq = server.recv().unwrap();
        drop(c);   // the client is gone, 49993 bytes short
        let (tx, rx) = std::sync::mpsc::channel();
        std::thread::spawn(move || {
            match mode {
                "respond" => { let _ = rq.respond(tiny_http::Response::from_string("ok")); }
                "read" => { let mut v = Vec::new(); let _ = rq.as_reader().read_to_end(&mut v); let _ = rq.respond(tiny_http::Response::from_string("ok")); }
                _ => drop(rq),
            }
            let _ = tx.send(());
        });
        if rx.recv_timeout(Duration::from_secs(4)).is_err() { bad.push(format!("{}: did not return within 4 s after the client vanished inside the body", mode)); }
    }
    let mut c = connect(&server);
    send(&mut c, b"GET /alive HTTP/1.1\r\nHost: a\r\nConnection: close\r\n\r\n");
    match server.recv_timeout(Duration::from_secs(2)).unwrap() { Some(rq) => { let _ = rq.respond(tiny_http::Response::from_string("ok")); } None => bad.push("the server no longer serves new connections".into()) }
    verdict(bad.is_empty(), &format!("client vanishing inside a large body: {}", if bad.is_empty() { "contained".into() } else { bad.join(" | ") }));
}
