//! Replays a Kani counterexample of K-CTE on the real code through the public API:
//! Response::raw_print with the given status / request version / declared length / threshold and
//! no TE header; compares "Transfer-Encoding: chunked present" with the property's decision table.
use tiny_http::{HTTPVersion, Response, StatusCode};
use verif_replay::*;
fn main() {
    let a: Vec<String> = std::env::args().collect();
    let status: u16 = a[1].parse().unwrap();
    let major: u8 = a[2].parse().unwrap();
    let minor: u8 = a[3].parse().unwrap();
    let len: Option<usize> = if a[4] == "1" { Some(a[5].parse().unwrap()) } else { None };
    let thr: usize = a[6].parse().unwrap();
    let resp = Response::new(StatusCode(status), vec![], std::io::empty(), len, None).with_chunked_threshold(thr);
    let mut out: Vec<u8> = Vec::new();
    resp.raw_print(&mut out, HTTPVersion(major, minor), &[], true, None).unwrap();
    let text = String::from_utf8_lossy(&out).to_string();
    let chunked = text.contains("Transfer-Encoding: chunked");
    let expect = (major, minor) > (1, 0) && status >= 200 && status != 204 && len.map_or(true, |l| l >= thr);
    verdict(chunked == expect, &format!("status={} version={}.{} len={:?} threshold={}: chunked={} expected={}", status, major, minor, len, thr, chunked, expect));
}
