//! C15: a request whose buffered small body is incomplete when the client goes away is never delivered.
//! usage: c15_truncated_body <declared> <sent>
use std::time::Duration;
use verif_replay::*;
fn main() {
    let declared: usize = std::env::args().nth(1).and_then(|s| s.parse().ok()).unwrap_or(10);
    let sent: usize = std::env::args().nth(2).and_then(|s| s.parse().ok()).unwrap_or(3);
    let server = tiny_http::Server::http("127.0.0.1:0").unwrap();
    let mut c = connect(&server);
    let mut msg = format!("POST /x HTTP/1.1\r\nHost: a\r\nContent-Length: {}\r\n\r\n", declared).into_bytes();
    msg.extend(std::iter::repeat(b'a').take(sent));
    send(&mut c, &msg);
    c.shutdown(std::net::Shutdown::Write).unwrap();
    let got = server.recv_timeout(Duration::from_millis(600)).unwrap();
    let desc = got.as_ref().map(|rq| format!("{} {} body_length={:?}", rq.method(), rq.url(), rq.body_length()));
    if let Some(mut rq) = got {
        let mut body = Vec::new();
        let _ = std::io::Read::read_to_end(rq.as_reader(), &mut body);
        let _ = rq.respond(tiny_http::Response::from_string("ok"));
        verdict(false, &format!("a request with {} of {} declared body bytes was delivered: {:?}, readable body {} bytes", sent, declared, desc, body.len()));
    }
    verdict(true, "the truncated request was not delivered");
}
