//! C12: the persistence decision, for a matrix of versions and Connection header values.  A first request carries the
//! Connection header under test, a second request follows on the same connection: it must be answered exactly when
//! the first one does not end the connection (close or upgrade token in any letter case and any list position ends it;
//! HTTP/1.0 ends it unless it says keep-alive; HTTP/1.1 persists otherwise).
use std::time::Duration;
use verif_replay::*;
fn main() {
    let values: [Option<&str>; 10] = [None, Some("close"), Some("Close"), Some("keep-alive"), Some("Keep-Alive"), Some("upgrade"),
        Some("keep-alive, close"), Some("close, keep-alive"), Some("keep-alive, Upgrade"), Some("x-other")];
    let mut bad = Vec::new();
    for ver in ["1.0", "1.1"] {
        for v in values.iter() {
            let lc = v.map(|s| s.to_ascii_lowercase());
            let ends = match &lc {
                Some(c) => c.contains("close") || c.contains("upgrade") || (ver == "1.0" && !c.contains("keep-alive")),
                None => ver == "1.0",
            };
            let server = tiny_http::Server::http("127.0.0.1:0").unwrap();
            let mut c = connect(&server);
            let hdr = v.map(|s| format!("Connection: {}\r\n", s)).unwrap_or_default();
            send(&mut c, format!("GET /first HTTP/{}\r\nHost: a\r\n{}\r\nGET /second HTTP/1.1\r\nHost: a\r\nConnection: close\r\n\r\n", ver, hdr).as_bytes());
            let mut delivered = Vec::new();
            while let Ok(Some(rq)) = server.recv_timeout(Duration::from_millis(300)) {
                delivered.push(rq.url().to_string());
                let _ = rq.respond(tiny_http::Response::from_string("ok"));
            }
            let second = delivered.iter().any(|u| u == "/second");
            if second == ends {
                bad.push(format!("HTTP/{} Connection={:?}: must {}end the connection, but the following request was {}", ver, v, if ends { "" } else { "not " }, if second { "served" } else { "not served" }));
            }
        }
    }
    verdict(bad.is_empty(), &format!("persistence matrix (2 versions x 10 Connection values): {}", if bad.is_empty() { "all as the property says".to_string() } else { bad.join(" | ") }));
}
