//! C10 / C15: a head that cannot be read for a reason other than a timeout -- bytes that are not ASCII, or the client
//! leaving in the middle of it -- ends the connection without anything being written ("plain close"), and nothing is delivered.
use std::net::Shutdown;
use std::time::Duration;
use verif_replay::*;
fn main() {
    let mut bad = Vec::new();
    for (name, bytes, half_close) in [
        ("non-ASCII byte in the request line", &b"GET /\xff HTTP/1.1\r\nHost: a\r\n\r\n"[..], false),
        ("non-ASCII byte in a header line", &b"GET / HTTP/1.1\r\nHost: \xc3\xa9\r\n\r\n"[..], false),
        ("client half-closes in the middle of the head", &b"GET / HTTP/1.1\r\nHo"[..], true),
        ("client half-closes without sending anything", &b""[..], true),
    ] {
        let server = tiny_http::Server::http("127.0.0.1:0").unwrap();
        let mut c = connect(&server);
        send(&mut c, bytes);
        if half_close { c.shutdown(Shutdown::Write).unwrap(); }
        let delivered = server.recv_timeout(Duration::from_millis(400)).unwrap().is_some();
        let out = read_available(&mut c);
        if delivered || !out.is_empty() {
            bad.push(format!("{}: delivered={} bytes written to the client: {:?}", name, delivered, String::from_utf8_lossy(&out).lines().next().unwrap_or("").to_string()));
        }
    }
    verdict(bad.is_empty(), &format!("silent close: {}", if bad.is_empty() { "nothing written, nothing delivered".into() } else { bad.join(" | ") }));
}
