//! C13: what is delivered does not depend on how the byte stream is cut into segments.  The same two-request conversation
//! (small buffered body, chunked body) is sent whole, byte by byte, and cut at every position once.
use std::io::{Read, Write};
use std::time::Duration;
use verif_replay::*;
fn run(cuts: &[usize], delay: Duration) -> Result<Vec<(String, Vec<u8>)>, String> {
    let conv: &[u8] = b"POST /a HTTP/1.1\r\nHost: a\r\nContent-Length: 11\r\n\r\nhello world\
POST /b HTTP/1.1\r\nHost: a\r\nTransfer-Encoding: chunked\r\nConnection: close\r\n\r\n4\r\nwiki\r\n5;x=1\r\npedia\r\n0\r\n\r\n";
    let server = tiny_http::Server::http("127.0.0.1:0").unwrap();
    let mut c = connect(&server);
    c.set_nodelay(true).unwrap();
    let conv2 = conv.to_vec();
    let cuts = cuts.to_vec();
    let w = std::thread::spawn(move || {
        let mut last = 0;
        for &k in cuts.iter().chain(std::iter::once(&conv2.len())) {
            if k > last { let _ = c.write_all(&conv2[last..k]); let _ = c.flush(); std::thread::sleep(delay); last = k; }
        }
        c
    });
    let mut got = Vec::new();
    for _ in 0..2 {
        match server.recv_timeout(Duration::from_millis(3000)).map_err(|e| e.to_string())? {
            Some(mut rq) => { let mut v = Vec::new(); rq.as_reader().read_to_end(&mut v).map_err(|e| e.to_string())?; got.push((rq.url().to_string(), v)); let _ = rq.respond(tiny_http::Response::from_string("ok")); }
            None => return Err(format!("only {} of 2 requests delivered", got.len())),
        }
    }
    let _ = w.join();
    Ok(got)
}
fn main() {
    let want = vec![("/a".to_string(), b"hello world".to_vec()), ("/b".to_string(), b"wikipedia".to_vec())];
    let mut bad = Vec::new();
    let total = 163usize;
    let mut plans: Vec<Vec<usize>> = vec![vec![], (1..total).collect()];
    for k in (1..total).step_by(7) { plans.push(vec![k]); }
    for plan in plans {
        let delay = if plan.len() > 10 { Duration::from_millis(1) } else { Duration::from_millis(30) };
        match run(&plan, delay) {
            Ok(g) if g == want => {}
            Ok(g) => bad.push(format!("cuts {:?}: delivered {:?}", &plan[..plan.len().min(3)], g.iter().map(|(u, b)| (u.clone(), String::from_utf8_lossy(b).to_string())).collect::<Vec<_>>())),
            Err(e) => bad.push(format!("cuts {:?}: {}", &plan[..plan.len().min(3)], e)),
        }
        if bad.len() >= 3 { break; }
    }
    verdict(bad.is_empty(), &format!("segmentation: {}", if bad.is_empty() { "same two requests and bodies for every cutting tried".into() } else { bad.join(" | ") }));
}
