//! F-C08-dispatch: N keep-alive connections opened at once, one request on each, all kept open.
//! Every one of them must be answered without any other connection closing.
use std::io::{Read, Write};
use std::net::TcpStream;
use std::sync::Arc;
use std::time::{Duration, Instant};
use verif_replay::*;
fn main() {
    let n: usize = std::env::args().nth(1).and_then(|s| s.parse().ok()).unwrap_or(8);
    let rounds: usize = std::env::args().nth(2).and_then(|s| s.parse().ok()).unwrap_or(10);
    let mut starved_total = 0;
    for _round in 0..rounds {
        let server = Arc::new(tiny_http::Server::http("127.0.0.1:0").unwrap());
        let s2 = server.clone();
        std::thread::spawn(move || {
            for rq in s2.incoming_requests() {
                let _ = rq.respond(tiny_http::Response::from_string("ok"));
            }
        });
        // let the 4 initial workers go idle
        std::thread::sleep(Duration::from_millis(50));
        let addr = server.server_addr().to_ip().unwrap();
        let mut conns: Vec<TcpStream> = (0..n).map(|_| TcpStream::connect(addr).unwrap()).collect();
        for c in conns.iter_mut() {
            c.write_all(b"GET / HTTP/1.1\r\nHost: a\r\n\r\n").unwrap();
        }
        let deadline = Instant::now() + Duration::from_millis(1500);
        let mut answered = vec![false; n];
        for (i, c) in conns.iter_mut().enumerate() {
            let left = deadline.saturating_duration_since(Instant::now()).max(Duration::from_millis(50));
            c.set_read_timeout(Some(left)).unwrap();
            let mut buf = [0u8; 512];
            if let Ok(k) = c.read(&mut buf) {
                answered[i] = k > 0;
            }
        }
        starved_total += answered.iter().filter(|a| !**a).count();
        server.unblock();
        drop(conns);
    }
    verdict(starved_total == 0, &format!("{} connections x {} rounds, all kept open: {} requests never answered", n, rounds, starved_total));
}
