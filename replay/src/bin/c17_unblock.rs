//! C17: unblock() releases exactly one receive call and loses no request.  Two requests are queued, then unblock() is
//! called once, then a third request arrives: the non-blocking receives must hand out /1 and /2, come back empty-handed
//! exactly once for the token, and still hand out /3.
use std::time::Duration;
use verif_replay::*;
fn main() {
    let server = tiny_http::Server::http("127.0.0.1:0").unwrap();
    let mut c = connect(&server);
    send(&mut c, b"GET /1 HTTP/1.1\r\nHost: a\r\n\r\nGET /2 HTTP/1.1\r\nHost: a\r\n\r\n");
    std::thread::sleep(Duration::from_millis(300));
    server.unblock();
    std::thread::sleep(Duration::from_millis(100));
    send(&mut c, b"GET /3 HTTP/1.1\r\nHost: a\r\nConnection: close\r\n\r\n");
    std::thread::sleep(Duration::from_millis(300));
    let mut seq = Vec::new();
    let mut held = Vec::new();
    for _ in 0..6 {
        match server.try_recv() {
            Ok(Some(rq)) => { seq.push(rq.url().to_string()); held.push(rq); }
            Ok(None) => seq.push("-".to_string()),
            Err(e) => seq.push(format!("err:{}", e)),
        }
    }
    // the requests of one connection are pipelined: /3 is only read once /2's body reader is released -- answer them now
    for rq in held.drain(..) { let _ = rq.respond(tiny_http::Response::from_string("ok")); }
    std::thread::sleep(Duration::from_millis(200));
    while let Ok(Some(rq)) = server.try_recv() { seq.push(rq.url().to_string()); let _ = rq.respond(tiny_http::Response::from_string("ok")); }
    let urls: Vec<&String> = seq.iter().filter(|s| s.starts_with('/')).collect();
    let all_three = urls.len() == 3 && urls[0] == "/1" && urls[1] == "/2" && urls[2] == "/3";
    // between /2 and the rest exactly one empty-handed return belongs to the token
    let pos2 = seq.iter().position(|s| s == "/2");
    let token_seen = pos2.map_or(false, |p| seq.get(p + 1).map_or(false, |s| s == "-"));
    verdict(all_three && token_seen, &format!("sequence of try_recv results: {:?}", seq));
}
