//! C04: every response is well-formed and self-delimiting on a persistent connection: after each of a series of
//! responses of different framing kinds (empty / non-empty, identity / chunked, HEAD, 204, 304) the next response
//! starts exactly where the previous one ends.
use verif_replay::*;
/// a body source that hands out its data in pieces of at most `piece` bytes (a pipe, a socket, a decoder: `Read` allows short reads)
struct Pieces { data: Vec<u8>, pos: usize, piece: usize }
impl std::io::Read for Pieces {
    fn read(&mut self, buf: &mut [u8]) -> std::io::Result<usize> {
        let n = buf.len().min(self.piece).min(self.data.len() - self.pos);
        buf[..n].copy_from_slice(&self.data[self.pos..self.pos + n]);
        self.pos += n;
        Ok(n)
    }
}
fn body_of(i: usize, len: usize) -> Vec<u8> { (0..len).map(|j| (j * 31 + i * 7) as u8).collect() }
fn main() {
    let server = tiny_http::Server::http("127.0.0.1:0").unwrap();
    let mut c = connect(&server);
    let kinds: Vec<(&str, u16, Option<usize>, usize, usize)> = vec![   // method, status, declared length, actual length, threshold
        ("GET", 200, Some(5), 5, 32768), ("GET", 200, Some(0), 0, 0), ("GET", 200, None, 7, 32768), ("GET", 200, Some(40), 40, 10),
        ("HEAD", 200, Some(5), 5, 32768), ("GET", 204, Some(0), 0, 32768), ("GET", 304, Some(3), 3, 32768), ("GET", 200, None, 0, 32768), ("HEAD", 200, None, 7, 32768), ("GET", 304, None, 3, 32768), ("HEAD", 200, Some(50), 50, 10), ("GET", 404, Some(2), 2, 32768),
        // bodies that arrive from their source in short pieces (piece sizes cycle below), identity and chunked
        ("GET", 200, Some(100000), 100000, usize::MAX), ("GET", 200, None, 100000, 0), ("GET", 200, Some(70001), 70001, 0), ("GET", 200, Some(9000), 9000, usize::MAX), ("GET", 200, None, 33, 32768),
    ];
    let pieces = [usize::MAX, 1000, 7, 40000, 1, 4096];
    let mut msg = String::new();
    for (i, k) in kinds.iter().enumerate() { msg += &format!("{} /{} HTTP/1.1\r\nHost: a\r\n\r\n", k.0, i); }
    send(&mut c, msg.as_bytes());
    // the client reads while the server answers: 280 KB of responses must not depend on the size of the socket buffers
    let mut rc = c.try_clone().unwrap();
    let reader = std::thread::spawn(move || read_available(&mut rc));
    for (i, k) in kinds.iter().enumerate() {
        let rq = server.recv().unwrap();
        let resp = tiny_http::Response::new(tiny_http::StatusCode(k.1), vec![], Pieces { data: body_of(i, k.3), pos: 0, piece: pieces[i % pieces.len()] }, k.2, None).with_chunked_threshold(k.4);
        let _ = rq.respond(resp);
    }
    let out = reader.join().unwrap();
    // parse the stream as a sequence of self-delimiting responses
    let mut pos = 0usize;
    let mut bad = None;
    for (i, k) in kinds.iter().enumerate() {
        let rest = &out[pos..];
        let he = match rest.windows(4).position(|w| w == b"\r\n\r\n") { Some(p) => p, None => { bad = Some(format!("response {}: no complete head at offset {}", i, pos)); break } };
        let head = String::from_utf8_lossy(&rest[..he]).to_ascii_lowercase();
        if !head.starts_with(&format!("http/1.1 {}", k.1)) { bad = Some(format!("response {}: expected status {}, stream continues with {:?}", i, k.1, head.lines().next())); break; }
        pos += he + 4;
        let no_body = k.0 == "HEAD" || k.1 == 204 || k.1 == 304 || k.1 < 200;
        if no_body { continue; }
        let mut got: Vec<u8> = Vec::new();
        if has_header_token(&head, "transfer-encoding", "chunked") {
            loop {
                let r = &out[pos..];
                let le = match r.windows(2).position(|w| w == b"\r\n") { Some(p) => p, None => { bad = Some(format!("response {}: chunk size line missing", i)); break } };
                let n = usize::from_str_radix(String::from_utf8_lossy(&r[..le]).trim(), 16).unwrap_or(usize::MAX);
                if n == usize::MAX { bad = Some(format!("response {}: bad chunk size {:?}", i, String::from_utf8_lossy(&r[..le]))); break; }
                if pos + le + 2 + n + 2 > out.len() { bad = Some(format!("response {}: chunk runs past the end", i)); break; }
                got.extend_from_slice(&out[pos + le + 2..pos + le + 2 + n]);
                pos += le + 2 + n + 2;
                if n == 0 { break; }
            }
            if bad.is_some() { break; }
        } else if let Some(l) = header_values(&head, "content-length").first().map(|v| v.parse::<usize>().unwrap_or(usize::MAX)) {
            if l == usize::MAX || pos + l > out.len() { bad = Some(format!("response {}: Content-Length {} announced, only {} bytes follow", i, l, out.len() - pos)); break; }
            got.extend_from_slice(&out[pos..pos + l]);
            pos += l;
        } else { bad = Some(format!("response {}: neither chunked nor content-length on a persistent connection", i)); break; }
        // "... with exactly the body": the bytes delivered are the bytes of the source, whatever pieces it came in
        if got != body_of(i, k.3) { bad = Some(format!("response {}: body of {} bytes delivered, the source had {} (pieces of {} bytes){}", i, got.len(), k.3, pieces[i % pieces.len()], if got.len() == k.3 { ", content differs" } else { "" })); break; }
    }
    if bad.is_none() && pos != out.len() { bad = Some(format!("{} stray bytes after the last response", out.len() as i64 - pos as i64)); }
    verdict(bad.is_none(), &format!("framing of {} consecutive responses: {}", kinds.len(), bad.unwrap_or_else(|| "each ends exactly where the next begins".into())));
}
