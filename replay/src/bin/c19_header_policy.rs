//! C19: response header policy.  The application adds headers whose names are reserved for the library (Connection,
//! Trailer, Transfer-Encoding, Upgrade) in several letter cases, plus an ordinary one: the reserved ones must not reach
//! the wire, the ordinary one must, exactly once.
use verif_replay::*;
fn main() {
    let server = tiny_http::Server::http("127.0.0.1:0").unwrap();
    let mut c = connect(&server);
    send(&mut c, b"GET /x HTTP/1.1\r\nHost: a\r\nConnection: close\r\n\r\n");
    let rq = server.recv().unwrap();
    let mut resp = tiny_http::Response::from_string("hello");
    for name in ["Connection", "connection", "CONNECTION", "Trailer", "trailer", "Transfer-Encoding", "transfer-encoding", "TRANSFER-ENCODING", "Upgrade", "upgrade"] {
        resp.add_header(tiny_http::Header::from_bytes(name.as_bytes(), &b"injected"[..]).unwrap());
    }
    resp.add_header(tiny_http::Header::from_bytes(&b"X-Ordinary"[..], &b"kept"[..]).unwrap());
    rq.respond(resp).unwrap();
    let out = String::from_utf8_lossy(&read_available(&mut c)).to_string();
    let head = out.split("\r\n\r\n").next().unwrap_or("").to_string();
    let injected: Vec<&str> = head.lines().filter(|l| l.to_ascii_lowercase().ends_with(": injected")).collect();
    let ordinary = head.lines().filter(|l| l.eq_ignore_ascii_case("X-Ordinary: kept")).count();
    verdict(injected.is_empty() && ordinary == 1, &format!("reserved headers on the wire: {:?}; X-Ordinary occurrences: {}", injected, ordinary));
}
