//! C19: response header policy, through the public API.
//!  (a) headers whose names are reserved for the library (Connection, Trailer, Transfer-Encoding, Upgrade), in several letter
//!      cases, never reach the wire; an ordinary header does, exactly once; the order of ordinary headers is kept;
//!  (b) every response carries exactly one Date (a valid HTTP-date) and exactly one Server header -- the application's own
//!      when it supplied one;
//!  (c) a later Content-Type replaces an earlier one whatever the letter case of either, so at most one is sent;
//!  (d) a supplied Content-Length only sets the declared body length (it is not echoed as a second header);
//!  (e) all of this also for a header list handed to the constructor `Response::new`;
//!  (f) and across the builder steps that rebuild or copy the response (`with_data`, `boxed`, `clone`, `with_status_code`).
use verif_replay::*;

fn exchange<R: std::io::Read>(build: impl FnOnce() -> tiny_http::Response<R>) -> String {
    let server = tiny_http::Server::http("127.0.0.1:0").unwrap();
    let mut c = connect(&server);
    send(&mut c, b"GET /x HTTP/1.1\r\nHost: a\r\nConnection: close\r\n\r\n");
    let rq = server.recv().unwrap();
    rq.respond(build()).unwrap();
    let out = String::from_utf8_lossy(&read_available(&mut c)).to_string();
    out.split("\r\n\r\n").next().unwrap_or("").to_string()
}
fn values(head: &str, name: &str) -> Vec<String> {
    head.lines().skip(1).filter_map(|l| { let mut p = l.splitn(2, ':'); let n = p.next()?; let v = p.next()?; if n.eq_ignore_ascii_case(name) { Some(v.trim().to_string()) } else { None } }).collect()
}
fn hdr(n: &str, v: &str) -> tiny_http::Header { tiny_http::Header::from_bytes(n.as_bytes(), v.as_bytes()).unwrap() }
fn is_http_date(v: &str) -> bool {
    // IMF-fixdate: "Sun, 06 Nov 1994 08:49:37 GMT"
    let b = v.as_bytes();
    v.len() == 29 && v.ends_with(" GMT") && &v[3..5] == ", " && b[5].is_ascii_digit() && b[6].is_ascii_digit() && b[7] == b' '
        && ["Jan", "Feb", "Mar", "Apr", "May", "Jun", "Jul", "Aug", "Sep", "Oct", "Nov", "Dec"].contains(&&v[8..11])
        && ["Mon", "Tue", "Wed", "Thu", "Fri", "Sat", "Sun"].contains(&&v[0..3])
        && v[12..16].bytes().all(|c| c.is_ascii_digit()) && b[19] == b':' && b[22] == b':'
}
fn main() {
    let mut bad = Vec::new();
    // (a)
    let head = exchange(|| {
        let mut resp = tiny_http::Response::from_string("hello");
        for name in ["Connection", "connection", "CONNECTION", "Trailer", "trailer", "Transfer-Encoding", "transfer-encoding", "TRANSFER-ENCODING", "Upgrade", "upgrade"] {
            resp.add_header(hdr(name, "injected"));
        }
        resp.add_header(hdr("X-Ordinary", "kept"));
        resp.add_header(hdr("X-Second", "2"));
        resp.add_header(hdr("X-Ordinary", "again"));
        resp
    });
    let injected: Vec<String> = header_pairs(&head).into_iter().filter(|(_, v)| v == "injected").map(|(n, _)| n).collect();
    if !injected.is_empty() { bad.push(format!("reserved headers on the wire: {:?}", injected)); }
    let order: Vec<String> = header_pairs(&head).into_iter().filter(|(n, _)| n.starts_with("X-")).map(|(n, v)| format!("{}={}", n, v)).collect();
    if order != ["X-Ordinary=kept", "X-Second=2", "X-Ordinary=again"] { bad.push(format!("ordinary headers sent as {:?}", order)); }
    // (b) library-supplied Date / Server
    let d = values(&head, "Date");
    if d.len() != 1 || !is_http_date(&d[0]) { bad.push(format!("Date header(s) of a plain response: {:?}", d)); }
    let s = values(&head, "Server");
    if s.len() != 1 { bad.push(format!("Server header(s) of a plain response: {:?}", s)); }
    // (b) application-supplied Date / Server, in another letter case
    let head = exchange(|| tiny_http::Response::from_string("x").with_header(hdr("date", "Sun, 06 Nov 1994 08:49:37 GMT")).with_header(hdr("SERVER", "mine")));
    let (d, s) = (values(&head, "Date"), values(&head, "Server"));
    if d != ["Sun, 06 Nov 1994 08:49:37 GMT"] { bad.push(format!("application supplied its own Date: sent {:?}", d)); }
    if s != ["mine"] { bad.push(format!("application supplied its own Server: sent {:?}", s)); }
    // (c) Content-Type replacement, all case combinations (from_string itself sets `Content-Type: text/plain; charset=UTF-8`)
    for (n1, n2) in [("Content-Type", "Content-Type"), ("content-type", "Content-Type"), ("Content-Type", "CONTENT-TYPE"), ("CONTENT-type", "content-TYPE")] {
        let head = exchange(|| tiny_http::Response::from_string("x").with_header(hdr(n1, "a/one")).with_header(hdr(n2, "b/two")));
        let ct = values(&head, "Content-Type");
        if ct != ["b/two"] { bad.push(format!("Content-Type set as `{}` then as `{}`: sent {:?}", n1, n2, ct)); }
    }
    // (d) Content-Length supplied by the application
    let head = exchange(|| tiny_http::Response::from_string("hello").with_header(hdr("content-length", "5")));
    let cl = values(&head, "Content-Length");
    if cl != ["5"] { bad.push(format!("application supplied Content-Length 5 for a 5-byte body: sent {:?}", cl)); }
    // (e) the same rules for a header list handed to the constructor Response::new
    let head = exchange(|| tiny_http::Response::new(tiny_http::StatusCode(200),
        vec![hdr("Content-Type", "a/one"), hdr("X-First", "1"), hdr("content-type", "b/two"), hdr("Transfer-Encoding", "injected"), hdr("X-Second", "2"), hdr("Content-Length", "5")],
        std::io::Cursor::new(b"hello".to_vec()), None, None));
    let (ct, cl) = (values(&head, "Content-Type"), values(&head, "Content-Length"));
    let order: Vec<String> = header_pairs(&head).into_iter().filter(|(n, _)| n.starts_with("X-")).map(|(n, v)| format!("{}={}", n, v)).collect();
    if ct != ["b/two"] || cl != ["5"] || order != ["X-First=1", "X-Second=2"] || head.to_ascii_lowercase().contains("injected") {
        bad.push(format!("header list given to Response::new: Content-Type {:?}, Content-Length {:?}, ordinary {:?}, reserved on the wire: {}", ct, cl, order, head.to_ascii_lowercase().contains("injected")));
    }
    // (f) the rules hold across the steps that rebuild / copy the response between two add_header calls
    let cur = || std::io::Cursor::new(b"data!".to_vec());
    let steps: Vec<(&str, Box<dyn FnOnce() -> String>)> = vec![
        ("with_data", Box::new(move || exchange(|| tiny_http::Response::from_string("x").with_header(hdr("Content-Type", "a/one")).with_header(hdr("X-K", "1")).with_data(cur(), Some(5)).with_header(hdr("content-type", "b/two")).with_header(hdr("Upgrade", "injected"))))),
        ("boxed", Box::new(|| exchange(|| tiny_http::Response::from_string("x").with_header(hdr("Content-Type", "a/one")).with_header(hdr("X-K", "1")).boxed().with_header(hdr("content-type", "b/two")).with_header(hdr("Upgrade", "injected"))))),
        ("clone", Box::new(|| exchange(|| tiny_http::Response::empty(200).with_header(hdr("Content-Type", "a/one")).with_header(hdr("X-K", "1")).clone().with_header(hdr("content-type", "b/two")).with_header(hdr("Upgrade", "injected"))))),
        ("with_status_code", Box::new(|| exchange(|| tiny_http::Response::from_string("x").with_header(hdr("Content-Type", "a/one")).with_header(hdr("X-K", "1")).with_status_code(404).with_chunked_threshold(1).with_header(hdr("content-type", "b/two")).with_header(hdr("Upgrade", "injected"))))),
    ];
    for (what, run) in steps {
        let head = run();
        let (ct, k) = (values(&head, "Content-Type"), values(&head, "X-K"));
        if ct != ["b/two"] || k != ["1"] || head.to_ascii_lowercase().contains("injected") {
            bad.push(format!("Content-Type set, then `{}`, then Content-Type set again: sent Content-Type {:?}, X-K {:?}, reserved on the wire: {}", what, ct, k, head.to_ascii_lowercase().contains("injected")));
        }
    }
    verdict(bad.is_empty(), &format!("header policy: {}", if bad.is_empty() { "as the property says".into() } else { bad.join(" | ") }));
}
