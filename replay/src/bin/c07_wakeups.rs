//! C07: no request stays queued while a receiver remains blocked.  Two application threads block in recv(); two
//! requests arrive back-to-back in one segment: both must be handed out promptly, each exactly once.  Repeated.
use std::sync::{mpsc, Arc};
use std::time::Duration;
use verif_replay::*;
fn main() {
    let rounds = 25;
    for round in 0..rounds {
        let server = Arc::new(tiny_http::Server::http("127.0.0.1:0").unwrap());
        let (tx, rx) = mpsc::channel();
        for id in 0..2 {
            let (s, tx) = (server.clone(), tx.clone());
            std::thread::spawn(move || {
                if let Ok(rq) = s.recv() { let _ = tx.send((id, rq.url().to_string())); let _ = rq.respond(tiny_http::Response::from_string("ok")); }
            });
        }
        std::thread::sleep(Duration::from_millis(60));   // both receivers are blocked now
        let mut c = connect(&server);
        send(&mut c, b"GET /a HTTP/1.1\r\nHost: a\r\n\r\nGET /b HTTP/1.1\r\nHost: a\r\nConnection: close\r\n\r\n");
        let mut got = Vec::new();
        while got.len() < 2 { match rx.recv_timeout(Duration::from_millis(1500)) { Ok(x) => got.push(x), Err(_) => break } }
        let mut urls: Vec<String> = got.iter().map(|g| g.1.clone()).collect();
        urls.sort();
        if urls != vec!["/a".to_string(), "/b".to_string()] {
            server.unblock(); server.unblock();
            verdict(false, &format!("round {}: two receivers blocked, two requests queued back-to-back, handed out within 1.5 s: {:?}", round, got));
        }
    }
    verdict(true, &format!("{} rounds: both queued requests always reached the two blocked receivers", rounds));
}
