"""Which units / Kani harnesses decide which property (DESIGN section 4 and 5)."""

PROPS = {
    "C01": dict(units=["u_seq"],
                claim="per-function contracts of SequentialWriterBuilder::next / SequentialWriter::{write,flush,drop} (wait-for-predecessor before touching the sink and before releasing the successor) + lemma L-ORDER: in every trace of contract-respecting steps the sink log is resp_0 ++ resp_1 ++ ... for all interleavings and any number of writers",
                replays=[dict(match=r"SequentialWriter<W>::drop", bin="c01_drop_unwritten", input="three pipelined GETs; rq2.into_writer() dropped unwritten on its own thread; rq3.respond on another thread; then rq1.respond: response 1 must precede response 3"),
                         dict(match=r"SequentialWriter<W>::(write|flush)", bin="c01_drop_unwritten", input="three pipelined GETs answered out of order on different threads")],
                not_decided=["NOT MACHINE-CHECKED: the reading of the function contracts as trace premises P1-P3 of L-ORDER (lemmas/l_order.rs header) rests on A-CHAN, A-MUTEX, A-DROP; size/flush behaviour of the std BufWriter under the mutex is std"]),
    "C03": dict(units=["u_readers"],
                replays=[dict(match=r"FusedReader<R>::read", bin="c03_zero_read", input="POST with Content-Length: 2000, handler calls as_reader().read(&mut []) and then read_to_end: must deliver all 2000 bytes")],
                claim="request body readers deliver exactly the framed bytes (stream contract of EqualReader/FusedReader)"),
    "C09": dict(units=["u_readers"],
                claim="dropping a body reader releases the source exactly at the end of the body"),
    "C13": dict(units=["u_readers"],
                claim="reader contracts are stated over stream() for any admissible short read"),
    "C14": dict(units=["u_readers"],
                replays=[dict(match=r"EqualReader<R>::drop:pre:n <= ALLOC_LIMIT", bin="c14_alloc", args=["99999999999999999"], input="POST with Content-Length: 99999999999999999 and 3 body bytes; handler responds without reading the body: the process must survive")],
                claim="allocation bounds at every vec![_; n] site; panic freedom of the verified functions"),
    "C15": dict(units=["u_readers", "u_req"],
                claim="EOF / Err of the source are contained by the readers"),
    "C06": dict(units=["u_req", "u_seq"],
                claim="slot state machine of Request: every consuming operation requires the slot occupied and takes it; respond prints exactly the given response (head only for HEAD) and flushes; Drop prints and flushes a 500 iff the slot is still occupied; lemma L-ONCE: every program allowed by ownership yields exactly one final response; SequentialWriter::drop releases the successor on every path (U-SEQ)",
                not_decided=["NOT DECIDED: that unwinding from a panicking handler runs Drop (Rust semantics, A-DROP)", "ASSUMED in this unit: Response::raw_print / Response::empty / new_empty contracts (effect witnesses)"]),
    "C18": dict(units=["u_req"],
                claim="as_reader prints and flushes a head-only 100 exactly when the continue flag is set, clears the flag and leaves the slot occupied; no writer access otherwise; lemma L-ONCE: at most one interim response, before the final one",
                not_decided=["NOT YET UNDER CONTRACT: new_request's computation of the continue flag and the no-pre-read rule (U-NEWREQ)"]),
    "C07": dict(units=["u_queue"],
                claim="every MessagesQueue operation is one atomic step on the protected VecDeque (push/unblock append exactly one element and notify while holding the lock; pop/try_pop/pop_timeout remove exactly the head and hand it to exactly the caller, or change nothing); Server::recv/recv_timeout/try_recv map the outcome 1:1; lemma L-QUEUE: in every history pushed == taken ++ queue (no loss, no duplication, FIFO)",
                not_decided=["NOT MACHINE-CHECKED: 'no lost wake-ups' is liveness; only its safety skeleton is checked (every enqueue path notifies under the lock; the blocking loops wait only after having found the queue empty under the lock)", "the connection thread's `messages.push(rq.into())` loop is a closure in lib.rs (outside extraction)"]),
    "C17": dict(units=["u_queue"],
                claim="unblock appends exactly one Unblock token and never removes/reorders a request; each token is consumed by exactly one receive step, which returns empty-handed (recv: Err(Other); recv_timeout/try_recv: Ok(None)); try_pop/try_recv cannot reach Condvar::wait* (blocking capability may_block() is not available to it); L-QUEUE counts tokens like requests",
                not_decided=["NOT DECIDED: the timing bounds of recv_timeout (>= timeout, <= 2*timeout): would need a ghost clock through Instant::now / wait_timeout"]),
    "C08": dict(units=["u_pool"],
                claim="TaskPool::spawn re-establishes the dispatch invariant (queued connections <= registered idle workers) for every queue length and idle count, and either starts a thread for the connection or queues it and notifies a waiter",
                replays=[dict(match=r"TaskPool::spawn", bin="c08_dispatch", args=["8", "10"],
                              input="8 keep-alive connections opened at once (10 rounds), one GET on each, all kept open; every request must be answered")],
                not_decided=["NOT DECIDED: the worker loop inside thread::spawn (its preservation of the invariant is argued in contracts/u_pool.rs.tpl, not proved); 'exactly one worker per connection' (client.take() in a closure in lib.rs)"]),
}

ASSUMPTIONS = {
    "A-STD": "assumed contracts of prelude/ for std (io, sync, mpsc, str, iter) and for the ascii / chunked_transfer / httpdate dependencies",
    "A-MUTEX": "std::sync::Mutex gives mutual exclusion; lock() returns Ok (no poisoning: panic freedom of the verified critical sections is proved)",
    "A-CHAN": "an mpsc recv returns only after a matching send (or sender drop); the senders of the sequential readers/writers are single-use and never cloned",
    "A-DROP": "Rust runs Drop::drop and then field drops at scope exit / unwinding; Verus does not model implicit drops, the drop BODIES are verified as inherent functions (R6)",
    "A-APP": "the application eventually answers or drops every request it received",
    "A-EXTRACT": "the rewrites R1..R17 applied to the extracted text preserve behaviour (same-body wrappers / marker-bound erasure); every application is listed in the evidence",
}

NOT_APPLICABLE = {
    "C20": "refusal of new connections, removal of the socket path and thread counts returning to baseline are effects of the OS socket API, thread lifetime and real time; Server::drop and the worker loop are thread::spawn closures plus syscalls: no contract on a function within the verifier's reach expresses them (DESIGN.md section 5 / C20)",
    "C02": "request-line and header-line splitting are str::split / splitn code: their iterator types are generic over Pattern, which this Verus cannot declare (rustc panic), and one valid request line needs >= 12 symbolic bytes under Kani (did not finish in 20 min); proving callers against assumed parser contracts would decide nothing about fidelity (DESIGN.md section 5 / C02)",
}
