#!/usr/bin/env python3
"""gen_sweep_mutants.py: turn the mutants that tools/mutation_sweep.py found to be (a) invisible to the 38 tests and (b) killed by a
unit (notes/mutation_sweep-*.json) into textual (file, old, new) mutants for the thorough tier's mutant guard: tools/mutants_sweep.json.
A site is written as the whole source line(s) around it, widened until the text is unique in the file."""
import os, sys, json, glob
HERE = os.path.dirname(os.path.dirname(os.path.abspath(__file__)))
src = open(os.path.join(HERE, "tools", "mutation_sweep.py")).read().replace("\nmain()\n", "\n")
ns = {"__file__": os.path.join(HERE, "tools", "mutation_sweep.py")}
exec(compile(src, "ms", "exec"), ns)
recs = []
for jf in sorted(glob.glob(os.path.join(HERE, "notes", "mutation_sweep-*.json"))):
    recs += json.load(open(jf))
out = {}
n = 0
for f in ns["FILES"]:
    text = open(os.path.join("/repo", f)).read()
    for (a, b, new, what, line) in ns["sites"](text):
        hit = [r for r in recs if r["file"] == f and r["line"] == line and r["what"] == what and r["status"] == "killed"]
        if not hit:
            continue
        lo = text.rfind("\n", 0, a) + 1
        hi = text.find("\n", b)
        hi = len(text) if hi < 0 else hi
        while text.count(text[lo:hi]) != 1 and (lo > 0 or hi < len(text)):
            lo = text.rfind("\n", 0, max(0, lo - 1)) + 1
            nh = text.find("\n", hi + 1)
            hi = len(text) if nh < 0 else nh
        old = text[lo:hi]
        mut = text[lo:a] + new + text[b:hi]
        for u, st, _ in hit[0].get("units", []):
            if st == "killed":
                out.setdefault(u, []).append([f, old, mut, "%s:%d %s" % (f, line, what)])
                n += 1
json.dump(out, open(os.path.join(HERE, "tools", "mutants_sweep.json"), "w"), indent=1)
print("wrote %d unit-mutants for %d units" % (n, len(out)))
