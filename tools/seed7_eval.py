#!/usr/bin/env python3
"""seed7_eval.py <worktree> <name-prefix>: evaluate one seed delivered by a sub-agent in <worktree>/seed_out (patch.diff, corrected.diff,
demo.rs, notes.md, meta.json): confirm it in the worktree (suite passes with the change, demo fails with it / passes without / passes
with the corrected variant), store it under /verif/seeded/<prefix>-<id>/, run the checks of the broken properties against /repo with
the patch and with the corrected variant applied (undone straight afterwards), record the verdicts in meta.json, remove the worktree."""
import os, sys, json, shutil, subprocess, re
wt, prefix = sys.argv[1], sys.argv[2]
so = os.path.join(wt, "seed_out")
meta = json.load(open(os.path.join(so, "meta.json")))
sid = "%s-%s" % (prefix, meta["id"])
dst = os.path.join("/verif/seeded", sid)
os.makedirs(dst, exist_ok=True)
for f in ("patch.diff", "corrected.diff", "demo.rs", "notes.md"):
    shutil.copy(os.path.join(so, f), os.path.join(dst, f))
def sh(cmd, cwd=None, timeout=2400):
    p = subprocess.run(cmd, shell=True, cwd=cwd, capture_output=True, text=True, timeout=timeout)
    return p.returncode, p.stdout + p.stderr
env = "CARGO_NET_OFFLINE=true"
assert sh("git -C /repo status --short")[1].strip() == "", "/repo not clean"
sh("git checkout -- src; rm -f tests/seeded_demo.rs", cwd=wt)
conf = {}
def suite():
    rc, out = sh("%s cargo test --workspace --no-fail-fast --offline 2>&1 | grep -E '^test result|FAILED|panicked'" % env, cwd=wt)
    return not [l for l in out.split("\n") if "FAILED" in l or ("failed;" in l and " 0 failed" not in l)] and "test result" in out
def demo():
    shutil.copy(os.path.join(dst, "demo.rs"), os.path.join(wt, "tests", "seeded_demo.rs"))
    rc, out = sh("%s cargo test --offline --test seeded_demo 2>&1 | tail -12" % env, cwd=wt)
    os.remove(os.path.join(wt, "tests", "seeded_demo.rs"))
    return "test result: ok" in out, out[-600:]
conf["demo_passes_without_change"] = demo()[0]
rc, o = sh("git apply %s" % os.path.join(dst, "patch.diff"), cwd=wt)
conf["patch_applies"] = rc == 0
conf["existing_suite_passes_with_change"] = suite()
ok, out = demo()
conf["demo_fails_with_change"] = not ok
conf["demo_output_with_change"] = out
sh("git checkout -- src", cwd=wt)
rc, o = sh("git apply %s" % os.path.join(dst, "corrected.diff"), cwd=wt)
conf["corrected_applies"] = rc == 0
conf["suite_passes_with_corrected"] = suite()
conf["demo_passes_with_corrected"] = demo()[0]
sh("git checkout -- src", cwd=wt)
meta["confirmed"] = conf
def run_checks(diff):
    res = {}
    rc, o = sh("git -C /repo apply %s" % diff)
    if rc != 0:
        return {"error": "does not apply: " + o[-200:]}
    ev = "/tmp/ev-keep-%d" % os.getpid()
    shutil.copytree("/verif/evidence", ev)
    try:
        for p in meta["breaks"]:
            rc, o = sh("./check %s" % p, cwd="/verif")
            lines = [l for l in o.split("\n") if l.startswith(("VIOLATION", "UNDECIDED", "OK ", "KNOWN", "  obligation"))]
            res[p] = dict(rc=rc, lines=[l[:400] for l in lines[:8]])
    finally:
        sh("git -C /repo checkout -- .")
        shutil.rmtree("/verif/evidence"); shutil.copytree(ev, "/verif/evidence"); shutil.rmtree(ev)
    return res
meta["checks"] = run_checks(os.path.join(dst, "patch.diff"))
meta["checks_corrected"] = run_checks(os.path.join(dst, "corrected.diff"))
json.dump(meta, open(os.path.join(dst, "meta.json"), "w"), indent=1)
print(sid, "confirmed:", {k: v for k, v in conf.items() if k != "demo_output_with_change"})
for p, r in meta["checks"].items():
    print("  seed     ", p, "rc=%s" % r.get("rc"), " | ".join(r.get("lines", []))[:500])
for p, r in meta["checks_corrected"].items():
    print("  corrected", p, "rc=%s" % r.get("rc"), " | ".join(r.get("lines", []))[:300])
sh("git -C /repo worktree remove --force %s" % wt)
print("repo clean:", sh("git -C /repo status --short")[1].strip() == "")
