#!/usr/bin/env python3
"""seed_eval.py <id> <src-dir-with-SEEDED> <Cxx> [<Cyy>...]
Confirms a seeded change independently (fresh worktree of /repo HEAD under /tmp: existing suite passes with it,
demo fails with it and passes without it), stores it under /verif/seeded/<id>/, then applies it to /repo,
runs the given checks, and undoes it.  Nothing is ever committed to /repo."""
import os, sys, json, shutil, subprocess, time

sid, src = sys.argv[1], sys.argv[2]
props = sys.argv[3:]
seeded = os.path.join(src, "SEEDED")
dst = os.path.join("/verif/seeded", sid)
os.makedirs(dst, exist_ok=True)
for f in ("patch.diff", "demo.rs", "notes.md"):
    if os.path.exists(os.path.join(seeded, f)):
        shutil.copy(os.path.join(seeded, f), os.path.join(dst, f))
wt = "/tmp/seedcheck-" + sid
def sh(cmd, cwd=None, timeout=1800):
    p = subprocess.run(cmd, shell=True, cwd=cwd, capture_output=True, text=True, timeout=timeout)
    return p.returncode, (p.stdout + p.stderr)
sh("git -C /repo worktree remove --force %s" % wt)
rc, out = sh("git -C /repo worktree add -q %s HEAD" % wt)
meta = dict(id=sid, breaks=props, base_commit=sh("git -C /repo rev-parse --short HEAD")[1].strip(), ran=[])
try:
    rc, out = sh("git apply %s" % os.path.join(dst, "patch.diff"), cwd=wt)
    meta["patch_applies"] = rc == 0
    if rc != 0:
        print("patch does not apply:", out[-800:]); raise SystemExit(3)
    env = "CARGO_TARGET_DIR=%s/target CARGO_NET_OFFLINE=true" % wt
    # existing suite with the change (demo not present yet)
    ok_runs = 0
    for i in range(2):
        rc, out = sh("%s cargo test --workspace --no-fail-fast --offline 2>&1 | grep -E '^test result|FAILED|panicked'" % env, cwd=wt)
        failed = [l for l in out.split("\n") if ("FAILED" in l or "failed;" in l and " 0 failed" not in l)]
        ok_runs += 0 if failed else 1
    meta["existing_suite_passes_with_change"] = ok_runs == 2
    meta["ran"].append("cargo test --workspace --no-fail-fast --offline (x2) with the change: %s" % ("all pass" if ok_runs == 2 else "FAILURES"))
    shutil.copy(os.path.join(dst, "demo.rs"), os.path.join(wt, "tests", "seeded_demo.rs"))
    rc1, out1 = sh("%s cargo test --offline --test seeded_demo 2>&1 | tail -15" % env, cwd=wt)
    demo_fails_with = "FAILED" in out1 or "failed" in out1 and "0 failed" not in out1
    meta["demo_fails_with_change"] = demo_fails_with
    sh("git apply -R %s" % os.path.join(dst, "patch.diff"), cwd=wt)
    rc2, out2 = sh("%s cargo test --offline --test seeded_demo 2>&1 | tail -8" % env, cwd=wt)
    demo_passes_without = "test result: ok" in out2
    meta["demo_passes_without_change"] = demo_passes_without
    meta["ran"].append("cargo test --offline --test seeded_demo: with the change %s; without it %s" % ("FAILS" if demo_fails_with else "passes(!)", "passes" if demo_passes_without else "FAILS(!)"))
    meta["demo_output_with_change"] = out1[-1200:]
finally:
    sh("git -C /repo worktree remove --force %s" % wt)
    shutil.rmtree(wt, ignore_errors=True)
# now our checks
evsave = "/tmp/seed-ev-%s" % sid
shutil.rmtree(evsave, ignore_errors=True); shutil.copytree("/verif/evidence", evsave)
rc, out = sh("git -C /repo apply %s" % os.path.join(dst, "patch.diff"))
if rc != 0:
    print("patch does not apply to /repo:", out[-500:]); raise SystemExit(3)
res = {}
try:
    for p in props:
        t0 = time.time()
        rc, out = sh("./check %s" % p, cwd="/verif")
        lines = [l for l in out.split("\n") if l.startswith(("VIOLATION", "UNDECIDED", "OK", "KNOWN", "  obligation"))]
        res[p] = dict(rc=rc, seconds=round(time.time() - t0, 1), lines=lines[:8])
        print(sid, p, "rc=%d" % rc, " | ".join(lines)[:700])
finally:
    sh("git -C /repo checkout HEAD -- . ; git -C /repo reset -q HEAD")
    st = sh("git -C /repo status --short")[1].strip()
    if st:
        print("WARNING: /repo not clean after undo:", st)
    shutil.rmtree("/verif/evidence"); shutil.copytree(evsave, "/verif/evidence"); shutil.rmtree(evsave)
meta["checks"] = res
meta["detected_by"] = [p for p, r in res.items() if r["rc"] == 1]
json.dump(meta, open(os.path.join(dst, "meta.json"), "w"), indent=1)
print(json.dumps({k: meta[k] for k in ("existing_suite_passes_with_change", "demo_fails_with_change", "demo_passes_without_change", "detected_by")}))
