#!/usr/bin/env python3
"""regenerate MANIFEST.json from tools/props.py"""
import os, sys, json
HERE = os.path.dirname(os.path.dirname(os.path.abspath(__file__)))
sys.path.insert(0, os.path.join(HERE, "tools"))
import props as P

ALL = ["C%02d" % i for i in range(1, 21)]
checks = []
for pid in ALL:
    if pid not in P.PROPS:
        continue
    c = P.PROPS[pid]
    checks.append(dict(
        property_id=pid,
        quick_cmd="./check %s --tier quick" % pid,
        thorough_cmd="./check %s --tier thorough" % pid,
        evidence_file="/verif/evidence/%s.json" % pid,
        replay_cmd_template="./check %s --replay {path}" % pid,
        engine="verus" + ("+kani" if c.get("kani") else ""),
        level_claimed=dict(category="proof", text=c["claim"], design_ref=c.get("design_ref", "DESIGN.md section 5 / " + pid)),
        level_note=c.get("level_note", "Assumed contracts of prelude/ (std io/sync/mpsc/str/iter, dependencies), Rust drop semantics, extraction rewrites R1-R27 (each application logged); listed per run in evidence coverage.trusted_base and assumptions."),
        technique=c.get("technique", "contract-based deductive verification (Verus) of the functions extracted verbatim from /repo on every run"
                        + ("; plus Kani harnesses on the real crate: " + ", ".join("%s (%s)" % (k["name"], "bounded stand-in, thorough tier" if k.get("bounded") else "complete, loop-free") for k in c["kani"]) if c.get("kani") else "")),
    ))
na = [dict(property_id=pid, reason=P.NOT_APPLICABLE.get(pid, "unit not built yet")) for pid in ALL if pid not in P.PROPS]
m = dict(
    version=1,
    setup_cmd="./setup.sh",
    hooks=dict(guard="none", enable="no hooks: Verus reads functions extracted from /repo's working tree; Kani runs on a scratch copy with harness modules appended under #[cfg(kani)]",
               baseline_off_cmd="cd /repo && cargo test --workspace --no-fail-fast --offline", source_commits=[], add_only=True),
    engines=[dict(name="verus", path="/verif/tools/verus_unit.py", serves_properties=[c["property_id"] for c in checks],
                  kind_free_text="deductive verifier (SMT, Z3) on single-file units assembled by tools/extract.py from /repo + /verif/contracts"),
             dict(name="kani", path="/verif/tools/kani_unit.py", serves_properties=[pid for pid in P.PROPS if P.PROPS[pid].get("kani")],
                  kind_free_text="CBMC-based model checker; loop-free full-domain harnesses (complete) and counterexample generation; unwinding harnesses labelled bounded")],
    checks=checks,
    not_applicable=na,
    notes="fix: commits in /repo are listed in /verif/known_findings.txt. ./check exits 2 (undecided) on lost anchors / unsupported constructs / solver limits; that is never an alarm.",
)
json.dump(m, open(os.path.join(HERE, "MANIFEST.json"), "w"), indent=1)
print("MANIFEST.json: %d checks, %d not applicable" % (len(checks), len(na)))
