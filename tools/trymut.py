#!/usr/bin/env python3
"""trymut.py <repo-rel-file> <old> <new> <Cxx>...   apply a textual mutation to /repo, run the checks, undo."""
import sys, subprocess, os
f, old, new = sys.argv[1:4]
props = sys.argv[4:]
p = os.path.join("/repo", f)
s = open(p).read()
if s.count(old) != 1:
    print("pattern occurs %d times" % s.count(old)); sys.exit(3)
open(p, "w").write(s.replace(old, new))
import shutil, tempfile
_ev = tempfile.mkdtemp(prefix="verif-ev-")
shutil.copytree("/verif/evidence", _ev + "/evidence")
try:
    for pr in props:
        r = subprocess.run(["./check", pr], cwd="/verif", capture_output=True, text=True)
        lines = [l for l in r.stdout.split("\n") if l.startswith(("VIOLATION", "UNDECIDED", "OK", "KNOWN", "  obligation"))]
        print(pr, "rc=%d" % r.returncode, " | ".join(lines)[:600])
finally:
    open(p, "w").write(s)
    # evidence files written while /repo was mutated are not evidence: put the previous ones back
    shutil.rmtree("/verif/evidence"); shutil.copytree(_ev + "/evidence", "/verif/evidence"); shutil.rmtree(_ev)
