#!/usr/bin/env python3
"""benign_eval.py <dir-with-p*.diff> [...]: apply each behaviour-preserving patch to /repo, run EVERY unit, undo.
A unit that reports a failed obligation on such a patch is a false alarm of the machinery (undecided is acceptable)."""
import os, sys, glob, json, subprocess, shutil, concurrent.futures as cf
sys.path.insert(0, os.path.dirname(os.path.abspath(__file__)))
import verus_unit as VU
import props as P
V = "/verif"
def sh(cmd):
    p = subprocess.run(cmd, shell=True, capture_output=True, text=True)
    return p.returncode, p.stdout + p.stderr
assert sh("git -C /repo status --short")[1].strip() == "", "/repo is not clean"
units = sorted({u for c in P.PROPS.values() for u in c["units"]})
BASE = json.load(open(os.path.join(V, "contracts", "baseline.json")))
out = {}
try:
    for d in (sys.argv[1:] or sorted(glob.glob(V + "/benign/B*"))):
        for pf in sorted(glob.glob(os.path.join(d, "p*.diff"))):
            name = os.path.basename(d.rstrip("/")) + "/" + os.path.basename(pf)
            rc, o = sh("git -C /repo apply %s" % pf)
            if rc != 0:
                print("%-14s patch does not apply: %s" % (name, o.strip()[:200])); continue
            try:
                import extract as X
                X.RepoFile.cache = {}
                with cf.ThreadPoolExecutor(max_workers=6) as ex:
                    futs = {ex.submit(VU.check_unit, os.path.join(V, "contracts", u + ".rs.tpl"), False): u for u in units}
                    res = {futs[f]: f.result() for f in cf.as_completed(futs)}
            finally:
                sh("git -C /repo checkout HEAD -- . ; git -C /repo reset -q HEAD")
            # the same rules as ./check: failures that depend on lost ghost bookkeeping / lost closure contracts are undecided
            bad = {u: [f["id"] for f in r.failures if not f.get("lost_ghost") and not f.get("lost_closures") and not f.get("lost_anchors")
                       and not [c for c in f.get("bare_closures", []) if c not in BASE["units"].get(u, {}).get("bare_closures", {}).get(f["fn"], [])]]
                   for u, r in res.items() if r.status == "failed"}
            for u, r in res.items():
                bu = BASE["units"].get(u, {})
                if any(bu.get("item_text", {}).get(k) not in (None, h) for k, h in getattr(r, "item_text", {}).items()):
                    bad.pop(u, None)
                elif u in bad:
                    fnq = {f["id"]: f["fn"] for f in r.failures}
                    bad[u] = [i for i in bad[u] if getattr(r, "strlit_patterns", {}).get(fnq[i], 0) <= bu.get("strlit_patterns", {}).get(fnq[i], 0)
                              and getattr(r, "bare_loops", {}).get(fnq[i], 0) <= bu.get("bare_loops", {}).get(fnq[i], 0)]
            bad = {u: v for u, v in bad.items() if v}
            und = {u: r.reason.split("\n")[0][:160] + " | " + " ".join(r.reason.split("\n")[1:3])[:300] for u, r in res.items() if r.status == "undecided"}
            out[name] = dict(failed=bad, undecided=und)
            print("%-14s %s%s" % (name, "FALSE-ALARM " + json.dumps(bad) if bad else "quiet", ("  undecided: " + json.dumps(und)) if und else ""), flush=True)
finally:
    shutil.rmtree(VU.WORK, ignore_errors=True)
    print("repo clean:", sh("git -C /repo status --short")[1].strip() == "")
json.dump(out, open("/tmp/benign_eval.json", "w"), indent=1)
