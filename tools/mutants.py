"""Guard iii (thorough tier): realistic mutants per unit.  Each must lose an obligation of the unit; survivors are
reported in the evidence (they are not alarms).  (file, old, new)"""
MUTANTS = {
    "u_readers": [
        ("src/util/equal_reader.rs", "&mut buf[..self.size]", "&mut buf[..]"),
        ("src/util/equal_reader.rs", "self.size -= len;", ""),
        ("src/util/equal_reader.rs", "remaining_to_read -= other;", "remaining_to_read -= 1;"),
        ("src/util/equal_reader.rs", "remaining_to_read.min(8192)", "remaining_to_read"),
        ("src/util/fused_reader.rs", "if l == 0 && !buf.is_empty() {", "if l == 0 {"),
        ("src/util/fused_reader.rs", "                    Ok(0) | Err(_) => break,", "                    Ok(_) | Err(_) => break,"),
        ("src/util/sequential.rs", "                self.next.send(reader).ok();\n            }\n            SequentialReaderInner::Waiting(recv) => {", "            }\n            SequentialReaderInner::Waiting(recv) => {"),
    ],
    "u_pool": [
        ("src/util/task_pool.rs", "<= queue.len()", "== 0"),
        ("src/util/task_pool.rs", "            self.sharing.condvar.notify_one();", ""),
    ],
    "u_seq": [
        ("src/util/sequential.rs", "            v.recv().ok();", ""),
        ("src/util/sequential.rs", "        ::std::mem::swap(&mut next_next_trigger, &mut self.next_trigger);", "        let next_next_trigger = self.next_trigger.take();"),
        ("src/util/sequential.rs", "        self.on_finish.send(()).ok();", ""),
    ],
    "u_req": [
        ("src/request.rs", "        if self.response_writer.is_some() {\n            let response = Response::empty(500);", "        if self.response_writer.is_none() {\n            let response = Response::empty(500);"),
        ("src/request.rs", "        Self::ignore_client_closing_errors(writer.flush())\n", "        Ok(())\n"),
        ("src/request.rs", "            self.must_send_continue = false;", ""),
        ("src/request.rs", "            ErrorKind::ConnectionReset => Ok(()),", ""),
        ("src/request.rs", "let response = Response::empty(500);", "let response = Response::empty(200);"),
        ("src/request.rs", "        let do_not_send_body = self.method == Method::Head;", "        let do_not_send_body = self.method != Method::Head;"),
    ],
    "u_queue": [
        ("src/util/messages_queue.rs", "        queue.push_back(Control::Elem(value));", "        queue.push_front(Control::Elem(value));"),
        ("src/util/messages_queue.rs", "                Some(Control::Unblock) => return None,\n                None => (),\n            }\n\n            queue = self.condvar.wait(queue).unwrap();", "                Some(Control::Unblock) => (),\n                None => (),\n            }\n\n            queue = self.condvar.wait(queue).unwrap();"),
        ("src/util/messages_queue.rs", "duration.subsec_nanos() < 1_000_000", "duration.subsec_nanos() < 500_000_000"),
        ("src/util/messages_queue.rs", "duration = if duration > sleep_time {", "duration = if sleep_time > duration {"),
        ("src/lib.rs", "            Some(Message::NewRequest(rq)) => Ok(Some(rq)),\n            None => Ok(None),\n        }\n    }\n\n    /// Same as `recv()` but doesn't block.", "            Some(Message::NewRequest(rq)) => Ok(None),\n            None => Ok(None),\n        }\n    }\n\n    /// Same as `recv()` but doesn't block."),
    ],
    "u_cmp": [
        ("src/common.rs", "            return my_major.cmp(&other_major);", "            return other_major.cmp(&my_major);"),
    ],
    "u_newreq": [
        ("src/request.rs", "    let content_length = if transfer_encoding.is_some() {", "    let content_length = if false {"),
        ("src/request.rs", "        } else if content_length <= 1024 && !expects_continue {", "        } else if content_length <= 1024 {"),
        ("src/request.rs", "        } else if content_length <= 1024 && !expects_continue {", "        } else if content_length < 1024 && !expects_continue {"),
        ("src/request.rs", "                offset += read;", "                offset = read;"),
        ("src/request.rs", "        must_send_continue: expects_continue,", "        must_send_continue: false,"),
        ("src/request.rs", "        body_length: content_length,", "        body_length: None,"),
        ("src/request.rs", "            Some(v) if v.eq_ignore_ascii_case(\"100-continue\") => true,", "            Some(v) if v == \"100-continue\" => true,"),
    ],
    "u_conn": [
        ("src/client.rs", "if line.is_empty() {", "if line.as_str().trim().is_empty() {"),
        ("src/client.rs", "            if *rq.http_version() > (1, 1) {", "            if *rq.http_version() > (2, 0) {"),
        ("src/client.rs", "                drop(writer);\n                continue;", "                continue;"),
        ("src/client.rs", "                Some(ref val) if val.contains(\"upgrade\") => self.no_more_requests = true,", ""),
        ("src/client.rs", "            if byte == b'\\n' && prev_byte_was_cr {", "            if byte == b'\\n' {"),
        ("src/client.rs", "FromStr::from_str(line.as_str().trim_end())", "FromStr::from_str(line.as_str().trim())"),
        ("src/client.rs", "                    let response = Response::new_empty(StatusCode(408));", "                    let response = Response::new_empty(StatusCode(400));"),
    ],
    "u_parse": [
        ("src/common.rs", "        if s.contains(char::is_whitespace) {\n            Err(())\n        } else {", "        if s.starts_with(char::is_whitespace) {\n            Err(())\n        } else {"),
        ("src/client.rs", "        \"HTTP/1.0\" => (1, 0),", "        \"HTTP/1.0\" => (1, 1),"),
    ],
    "u_tcp": [
        ("src/util/refined_tcp_stream.rs", "        if self.close_write {\n            self.stream.shutdown(Shutdown::Write).ok();\n        }", ""),
        ("src/util/refined_tcp_stream.rs", "    fn read(&mut self, buf: &mut [u8]) -> IoResult<usize> {\n        self.stream.read(buf)\n    }\n}\n\nimpl Write for RefinedTcpStream", "    fn read(&mut self, buf: &mut [u8]) -> IoResult<usize> {\n        let n = self.stream.read(buf)?;\n        if n == 0 { self.stream.shutdown(Shutdown::Both).ok(); }\n        Ok(n)\n    }\n}\n\nimpl Write for RefinedTcpStream"),
    ],
    "u_resp": [
        ("src/response.rs", "                100..=199 | 204 | 304 => true,", "                100..=199 | 204 => true,"),
        ("src/response.rs", "            self.headers.insert(0, build_date_header());", "            self.headers.push(build_date_header());"),
        ("src/response.rs", "            || header.field.equiv(\"Transfer-Encoding\")", ""),
        ("src/response.rs", "                    if data_length >= 1 {", "                    if data_length > 1 {"),
    ],
}
