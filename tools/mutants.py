"""Guard iii (thorough tier): realistic mutants per unit.  Each must lose an obligation of the unit; survivors are
reported in the evidence (they are not alarms).  (file, old, new)"""
MUTANTS = {
    "u_readers": [
        ("src/util/equal_reader.rs", "&mut buf[..self.size]", "&mut buf[..]"),
        ("src/util/equal_reader.rs", "self.size -= len;", ""),
        ("src/util/equal_reader.rs", "remaining_to_read -= other;", "remaining_to_read -= 1;"),
        ("src/util/equal_reader.rs", "remaining_to_read.min(8192)", "remaining_to_read"),
        ("src/util/fused_reader.rs", "if l == 0 && !buf.is_empty() {", "if l == 0 {"),
        ("src/util/fused_reader.rs", "                    Ok(0) | Err(_) => break,", "                    Ok(_) | Err(_) => break,"),
        ("src/util/sequential.rs", "                self.next.send(reader).ok();\n            }\n            SequentialReaderInner::Waiting(recv) => {", "            }\n            SequentialReaderInner::Waiting(recv) => {"),
    ],
    "u_pool": [
        ("src/util/task_pool.rs", "<= queue.len()", "== 0"),
        ("src/util/task_pool.rs", "            self.sharing.condvar.notify_one();", ""),
    ],
    "u_seq": [
        ("src/util/sequential.rs", "            v.recv().ok();", ""),
        ("src/util/sequential.rs", "        ::std::mem::swap(&mut next_next_trigger, &mut self.next_trigger);", "        let next_next_trigger = self.next_trigger.take();"),
        ("src/util/sequential.rs", "        self.on_finish.send(()).ok();", ""),
    ],
    "u_req": [
        ("src/request.rs", "        Self::ignore_client_closing_errors(response.raw_print(\n            writer.by_ref(),\n            self.http_version.clone(),\n            &self.headers,\n            do_not_send_body,\n            None,\n        ))?;", "        if let Err(e) = Self::ignore_client_closing_errors(response.raw_print(\n            writer.by_ref(),\n            self.http_version.clone(),\n            &self.headers,\n            do_not_send_body,\n            None,\n        )) {\n            let _ = Response::empty(500).raw_print(writer.by_ref(), self.http_version.clone(), &self.headers, do_not_send_body, None);\n            return Err(e);\n        }"),
        ("src/request.rs", "        let mut writer = self.extract_writer_impl();\n\n        let do_not_send_body = self.method == Method::Head;", "        let mut writer = self.extract_writer_impl();\n        writer.write(b\"\\r\\n\").ok();\n\n        let do_not_send_body = self.method == Method::Head;"),
        ("src/request.rs", "        if self.response_writer.is_some() {\n            let response = Response::empty(500);", "        if self.response_writer.is_none() {\n            let response = Response::empty(500);"),
        ("src/request.rs", "        Self::ignore_client_closing_errors(writer.flush())\n", "        Ok(())\n"),
        ("src/request.rs", "            self.must_send_continue = false;", ""),
        ("src/request.rs", "            ErrorKind::ConnectionReset => Ok(()),", ""),
        ("src/request.rs", "let response = Response::empty(500);", "let response = Response::empty(200);"),
        ("src/request.rs", "        let do_not_send_body = self.method == Method::Head;", "        let do_not_send_body = self.method != Method::Head;"),
    ],
    "u_queue": [
        ("src/util/messages_queue.rs", "        queue.push_back(Control::Elem(value));", "        queue.push_front(Control::Elem(value));"),
        ("src/util/messages_queue.rs", "                Some(Control::Unblock) => return None,\n                None => (),\n            }\n\n            queue = self.condvar.wait(queue).unwrap();", "                Some(Control::Unblock) => (),\n                None => (),\n            }\n\n            queue = self.condvar.wait(queue).unwrap();"),
        ("src/util/messages_queue.rs", "duration.subsec_nanos() < 1_000_000", "duration.subsec_nanos() < 500_000_000"),
        ("src/util/messages_queue.rs", "duration = if duration > sleep_time {", "duration = if sleep_time > duration {"),
        ("src/lib.rs", "            Some(Message::NewRequest(rq)) => Ok(Some(rq)),\n            None => Ok(None),\n        }\n    }\n\n    /// Same as `recv()` but doesn't block.", "            Some(Message::NewRequest(rq)) => Ok(None),\n            None => Ok(None),\n        }\n    }\n\n    /// Same as `recv()` but doesn't block."),
    ],
    "u_cte": [
        ("src/util/mod.rs", "p.trim_start()[2..].trim()", "p.trim_start()[3..].trim()"),
        ("src/util/mod.rs", "if p.trim_start().starts_with(\"q=\") {", "if p.trim_start().starts_with(\"q\") {"),
        ("src/util/mod.rs", "if let Ok(val) = f32::from_str(p.trim_start()[2..].trim()) {", "if let Ok(val) = f32::from_str(p[2..].trim()) {"),
        ("src/response.rs", "            parse.retain(|elem| !elem.1.is_nan());\n", ""),
        ("src/response.rs", "            parse.retain(|elem| !elem.1.is_nan());", "            parse.retain(|elem| elem.1.is_nan());"),
        ("src/response.rs", "    if *http_version <= (1, 0) {\n        return TransferEncoding::Identity;", "    if *http_version < (1, 0) {\n        return TransferEncoding::Identity;"),
        ("src/response.rs", "    if status_code.0 < 200 || status_code.0 == 204 {", "    if status_code.0 < 200 || status_code.0 == 205 {"),
        ("src/response.rs", "        .map_or(true, |val| *val >= chunked_threshold)", "        .map_or(true, |val| *val > chunked_threshold)"),
        ("src/response.rs", "        } else if input.eq_ignore_ascii_case(\"chunked\") {", "        } else if input == \"chunked\" {"),
        ("src/response.rs", "                if value.1 <= 0.0 {\n                    continue;\n                }\n", ""),
        ("src/response.rs", "parse.sort_by(|a, b| b.1.partial_cmp(&a.1).unwrap_or(Ordering::Equal));", "parse.sort_by(|a, b| a.1.partial_cmp(&b.1).unwrap_or(Ordering::Equal));"),
        ("src/response.rs", "                    return Some(te);", "                    return Some(TransferEncoding::Chunked);"),
        ("src/response.rs", "            parse.sort_by(|a, b| b.1.partial_cmp(&a.1).unwrap_or(Ordering::Equal));\n", ""),
        ("src/response.rs", "            // encoding not found\n            None", "            // encoding not found\n            Some(TransferEncoding::Identity)"),
        ("src/response.rs", "    if let Some(user_request) = user_request {\n        return user_request;\n    }\n\n    // if we have additional headers, using chunked\n    if has_additional_headers {", "    // if we have additional headers, using chunked\n    if has_additional_headers {"),
    ],
    "u_worker": [
        ("src/util/task_pool.rs", "                        if !received && todo.is_empty() {", "                        if !received {"),
        ("src/util/task_pool.rs", "                        let _waiting_guard = Registration::new(&sharing.waiting_tasks);\n", ""),
        ("src/util/task_pool.rs", "                        let _waiting_guard = Registration::new(&sharing.waiting_tasks);", "                        let _waiting_guard = Registration::new(&sharing.active_tasks);"),
        ("src/util/task_pool.rs", "        self.nb.fetch_sub(1, Ordering::Release);", "        self.nb.fetch_sub(2, Ordering::Release);"),
        ("src/util/task_pool.rs", "        nb.fetch_add(1, Ordering::Release);\n        Registration { nb }", "        Registration { nb }"),
    ],
    "u_task": [
        ("src/lib.rs", "                                    for rq in client {\n                                        messages.push(rq.into());\n                                    }", "                                    let mut pending = Vec::new();\n                                    for rq in client {\n                                        pending.push(rq);\n                                    }\n                                    for rq in pending {\n                                        messages.push(rq.into());\n                                    }"),
        ("src/lib.rs", "                                        messages.push(rq.with_notify_sender(sender.clone()).into());\n                                        receiver.recv().unwrap();", "                                        let rq = rq.with_notify_sender(sender.clone());\n                                        receiver.recv().unwrap();\n                                        messages.push(rq.into());"),
    ],
    "u_cmp": [
        ("src/common.rs", "            return my_major.cmp(&other_major);", "            return other_major.cmp(&my_major);"),
    ],
    "u_newreq": [
        ("src/request.rs", "    let content_length = if transfer_encoding.is_some() {", "    let content_length = if false {"),
        ("src/request.rs", "        } else if content_length <= 1024 && !expects_continue {", "        } else if content_length <= 1024 {"),
        ("src/request.rs", "        } else if content_length <= 1024 && !expects_continue {", "        } else if content_length < 1024 && !expects_continue {"),
        ("src/request.rs", "                offset += read;", "                offset = read;"),
        ("src/request.rs", "        must_send_continue: expects_continue,", "        must_send_continue: false,"),
        ("src/request.rs", "        body_length: content_length,", "        body_length: None,"),
        ("src/request.rs", "            Some(v) if v.eq_ignore_ascii_case(\"100-continue\") => true,", "            Some(v) if v == \"100-continue\" => true,"),
    ],
    "u_conn": [
        ("src/client.rs", "                writer.flush().ok();\n                drop(writer);", "                drop(writer);"),
        ("src/client.rs", "raw_print(writer.by_ref(), HTTPVersion(1, 1), &[], false, None)", "raw_print(writer.by_ref(), HTTPVersion(1, 2), &[], false, None)"),
        ("src/client.rs", "if err.kind() == ErrorKind::TimedOut =>", "if err.kind() != ErrorKind::TimedOut =>"),
        ("src/client.rs", "headers.push(match FromStr::from_str(line.as_str().trim_end()) {", "headers.push(match FromStr::from_str(line.as_str().trim()) {"),
        ("src/client.rs", "headers.push(match FromStr::from_str(line.as_str().trim_end()) {", "headers.insert(0, match FromStr::from_str(line.as_str().trim_end()) {"),
        ("src/client.rs", "            remote_addr,\n            data_source,", "            None,\n            data_source,"),
        ("src/client.rs", "if line.is_empty() {", "if line.as_str().trim().is_empty() {"),
        ("src/client.rs", "            if *rq.http_version() > (1, 1) {", "            if *rq.http_version() > (2, 0) {"),
        ("src/client.rs", "                drop(writer);\n                continue;", "                continue;"),
        ("src/client.rs", "                Some(ref val) if val.contains(\"upgrade\") => self.no_more_requests = true,", ""),
        ("src/client.rs", "            if byte == b'\\n' && prev_byte_was_cr {", "            if byte == b'\\n' {"),
        ("src/client.rs", "FromStr::from_str(line.as_str().trim_end())", "FromStr::from_str(line.as_str().trim())"),
        ("src/client.rs", "                    let response = Response::new_empty(StatusCode(408));", "                    let response = Response::new_empty(StatusCode(400));"),
    ],
    "u_parse": [
        ("src/client.rs", "    let mut parts = line.split(' ');", "    let mut parts = line.split('\\t');"),
        ("src/client.rs", "    let path = parts.next().map(ToOwned::to_owned);\n    let version = parts.next().and_then(|w| parse_http_version(w).ok());", "    let version = parts.next().and_then(|w| parse_http_version(w).ok());\n    let path = parts.next().map(ToOwned::to_owned);"),
        ("src/common.rs", "        let mut elems = input.splitn(2, ':');", "        let mut elems = input.splitn(3, ':');"),
        ("src/common.rs", "            .and_then(|v| AsciiString::from_ascii(v.trim()).ok())", "            .and_then(|v| AsciiString::from_ascii(v).ok())"),
        ("src/common.rs", "        let field = elems.next().and_then(|f| f.parse().ok()).ok_or(())?;", "        let field = elems.next().and_then(|f| f.trim().parse().ok()).ok_or(())?;"),
        ("src/common.rs", "            \"PATCH\" => Method::Patch,", "            \"PATCH\" => Method::Put,"),
        ("src/common.rs", "        if s.contains(char::is_whitespace) {\n            Err(())\n        } else {", "        if s.starts_with(char::is_whitespace) {\n            Err(())\n        } else {"),
        ("src/client.rs", "        \"HTTP/1.0\" => (1, 0),", "        \"HTTP/1.0\" => (1, 1),"),
    ],
    "u_tcp": [
        ("src/util/refined_tcp_stream.rs", "            stream: read,\n            close_read: true,\n            close_write: false,", "            stream: read,\n            close_read: true,\n            close_write: true,"),
        ("src/util/refined_tcp_stream.rs", "            stream: write,\n            close_read: false,\n            close_write: true,", "            stream: write,\n            close_read: false,\n            close_write: false,"),
        ("src/util/refined_tcp_stream.rs", "        if self.close_write {\n            self.stream.shutdown(Shutdown::Write).ok();\n        }", ""),
        ("src/util/refined_tcp_stream.rs", "    fn read(&mut self, buf: &mut [u8]) -> IoResult<usize> {\n        self.stream.read(buf)\n    }\n}\n\nimpl Write for RefinedTcpStream", "    fn read(&mut self, buf: &mut [u8]) -> IoResult<usize> {\n        let n = self.stream.read(buf)?;\n        if n == 0 { self.stream.shutdown(Shutdown::Both).ok(); }\n        Ok(n)\n    }\n}\n\nimpl Write for RefinedTcpStream"),
    ],
    "u_resp": [
        ("src/response.rs", "        // sending the body\n        if !do_not_send_body {", "        // sending the body\n        writer.write(b\"\\r\\n\")?;\n        if !do_not_send_body {"),
        # (removed: `if data_length != Some(0) { io::copy(..) }` in the chunked arm -- a body DECLARED empty need not be polled, C04 presumes
        #  declared lengths to be correct; the obligation that killed it was a false alarm on the corrected variant of seed C04d)
        ("src/response.rs", "                100..=199 | 204 | 304 => true,", "                100..=199 | 204 => true,"),
        ("src/response.rs", "            self.headers.insert(0, build_date_header());", "            self.headers.push(build_date_header());"),
        ("src/response.rs", "            || header.field.equiv(\"Transfer-Encoding\")", ""),
        ("src/response.rs", "                    if data_length >= 1 {", "                    if data_length > 1 {"),
    ],
}

# mutants found by tools/mutation_sweep.py (generic operators; each passes the 38 tests and was killed by the unit), written out
# as text by tools/gen_sweep_mutants.py
import json as _json, os as _os
_p = _os.path.join(_os.path.dirname(_os.path.abspath(__file__)), "mutants_sweep.json")
if _os.path.exists(_p):
    for _u, _l in _json.load(open(_p)).items():
        for _f, _old, _new, _what in _l:
            if (_f, _old, _new) not in MUTANTS.setdefault(_u, []):
                MUTANTS[_u].append((_f, _old, _new))
