"""evidence/<id>.json writer (schema: /root/.vp/EVIDENCE.schema.json)"""
import os
import json

HERE = os.path.dirname(os.path.dirname(os.path.abspath(__file__)))


def write(prop, tier, seed, cfg, results, kani_res, violations, known_hits, undecided, other, wall, extras=None):
    import props as P
    units = cfg["units"]
    fns, samples, trusted, rewrites = [], [], [], []
    obligations = discharged = 0
    smt_ms = total_ms = 0
    checker = []
    vac = {}
    for u in units:
        r = results[u]
        obligations += r.obligations
        discharged += r.discharged
        smt_ms += r.smt_ms
        total_ms += r.total_ms
        if r.cmd:
            checker.append("(unit assembled by tools/extract.py from contracts/%s.rs.tpl + /repo; cd <scratch> && %s)" % (u, r.cmd))
        for t in r.trusted:
            if t not in trusted:
                trusted.append(t)
        rewrites += ["%s: %s" % (u, x) for x in r.rewrites]
        vac[u] = r.vacuity
        failed_fns = {f["fn"] for f in r.failures}
        for f in r.fns:
            fns.append(dict(unit=u, function=f["qual"], file=f["file"], line=f["repo_line"], clauses=f["clauses"],
                            relevant=prop in f["props"], verified=f["qual"] not in failed_fns and r.status != "undecided"))
        # samples: the clauses themselves, read back from the generated unit
        try:
            txt = open(r.unit_file).read().split("\n")
            for f in r.fns:
                if prop in f["props"] and len(samples) < 12:
                    seg = [l.strip() for l in txt[f["out_first"]:f["out_last"] + 1] if l.strip()]
                    cl = [l for l in seg if l.startswith(("requires", "ensures", "invariant", "decreases")) or "==>" in l or "==" in l][:6]
                    samples.append(dict(function=f["qual"], file="%s:%d" % (f["file"], f["repo_line"]), clauses=cl))
        except Exception:
            pass
    # obligations that carry THIS property: clauses of the functions tagged with it (+ one safety bundle each) + lemmas
    rel_obl = rel_dis = 0
    for u in units:
        r = results[u]
        failed_ids = [f for f in r.failures]
        for f in r.fns:
            if prop in f["props"]:
                n = sum(f["clauses"].values()) + 1
                rel_obl += n
                bad = sum(1 for x in failed_ids if x["fn"] == f["qual"])
                rel_dis += max(0, n - bad)
    kani_obl = sum(k.get("checks", 0) for k in kani_res)
    kani_ok = sum(k.get("checks", 0) for k in kani_res if k["status"] == "ok")
    ev = dict(
        property_id=prop, tier=tier if tier in ("quick", "thorough") else "quick", seed=seed, level="proof",
        coverage=dict(
            obligations=obligations + kani_obl,
            discharged=discharged + kani_ok,
            obligations_of_functions_tagged_with_this_property=rel_obl,
            discharged_of_functions_tagged_with_this_property=rel_dis,
            counting_rule="obligations = explicit contract clauses (requires/ensures/invariant/decreases/assert/closure ensures, counted by the splicer) + one safety bundle per extracted function (overflow, bounds, unwrap, callee preconditions) + Verus proof items (lemmas, spec-fn termination) of ALL units this property depends on; Kani: CBMC checks of the harnesses",
            checker_cmd="; ".join(checker + [k.get("cmd", "") for k in kani_res]) or "none",
            trusted_base=trusted,
            samples=samples or [dict(note="no function of this property could be extracted on this run")],
            explanation=cfg.get("claim", ""),
            functions_under_contract=fns,
            units=units,
            back_ends=dict(verus=dict(units=len(units), functions_verified=sum(results[u].verified for u in units),
                                      solver_ms=smt_ms, total_ms=total_ms, fn_times={u: results[u].fn_times for u in units}),
                           kani=[{k: v for k, v in kr.items() if k not in ("failure",)} for kr in kani_res]),
            vacuity_guard=vac,
            rewrites_applied=rewrites,
            undecided=undecided,
            known_findings=[dict(obligation=f["id"], text=t) for f, t in known_hits],
            failures_attributed_to_other_properties=[f["id"] for f in other],
            failures_not_reproduced_when_the_function_is_verified_alone=[x for u in units for x in getattr(results[u], "unconfirmed", [])],
            exhaustive=False,
            thorough=extras or {},
        ),
        assumptions=[k + ": " + v for k, v in P.ASSUMPTIONS.items() if k in cfg.get("assumptions", list(P.ASSUMPTIONS))] + cfg.get("not_decided", []),
        wall_s=round(wall, 2),
        violations=len(violations),
    )
    os.makedirs(os.path.join(HERE, "evidence"), exist_ok=True)
    json.dump(ev, open(os.path.join(HERE, "evidence", prop + ".json"), "w"), indent=1, default=str)
