"""Unit assembler: template (contracts + prelude includes) + verbatim code cut out of /repo.

Template directives (a line whose first non-blank characters are `//@`):

  //@include <path relative to /verif>          paste a prelude file
  //@item <repo file> <kw> <Name>                paste struct/enum/type/static verbatim (doc comments,
                                                 #[derive], #[inline], #[allow] attributes dropped = R9)
  //@impl <repo file> "<substring of header>" [inherent]
                                                 paste the impl header up to `{`; `inherent` removes
                                                 `Trait for` (R6 / R12)
  //@endimpl                                     emits `}`
  //@fn <name> [as <newname>] [ret <ident>] [props Cxx,Cyy]      (inside //@impl)
  //@fn <repo file> <name> [as ...] [ret ...] [props ...]        (free function)
      //@spec            following lines go between the signature and the body
      //@entry           following lines go right after the body's `{`
      //@exit            following lines go right before the body's closing `}`
      //@loop <k>        following lines go between the k-th loop header and its `{`
      //@loopentry <k>   following lines go right after the k-th loop's `{`
      //@loopexit <k>    following lines go right after the k-th loop's closing `}`
      //@blocktail <k> <tokens>  following lines go in front of the tail expression (or closing brace) of the block that
                         encloses the k-th occurrence of <tokens>: where that block's locals are about to be dropped
      //@closure <k> <header>   header replaces `|params|` of the k-th closure; its body is braced
      //@before <k> <token> [@after <pattern>]   (//@before? = skip silently when the anchor is absent; with @after, occurrences
                                are counted from the first occurrence of <pattern>) following lines go before the k-th occurrence of <token> (if that is
                                the expression of a match arm the arm gets braces)
      //@after <k> <token-seq ending a statement>  following lines go after the `;` that ends the
                                statement containing the k-th occurrence of the token sequence
      //@atexit          following lines (a proof block; `$r` stands for the returned value) are executed at EVERY exit:
                         the tail expression E becomes `{ let __r = E; <lines> __r }`, each `return X` becomes
                         `{ let __r = X; <lines> return __r; }` -- no positional anchors, robust to restructuring
      //@bind <name> ~<regex>~   `$name` in the before/after lines = group 1 of the regex in the function's (normalised) text
      //@no <Rn>         do not apply rewrite Rn in this function
      //@assume          keep the real signature + the spliced contract, replace the body by
                         unimplemented!() under #[verifier::external_body] (contract-only callee, listed as trusted)
  //@endfn

Everything else is copied as is.  The rewrites R1.. applied to the verbatim text are the closed list
in REWRITES below; every application is logged.
"""
import os
import re
import sys
import json

sys.path.insert(0, os.path.dirname(os.path.abspath(__file__)))
import rustlex as L
import threading
_TL = threading.local()     # per-thread (= per unit being assembled) switches of the opt-in rewrites: units are built concurrently


class _TLSet:
    def __init__(self, name):
        self.name = name
    def _s(self):
        if not hasattr(_TL, self.name):
            setattr(_TL, self.name, set())
        return getattr(_TL, self.name)
    def __contains__(self, x):
        return x in self._s()
    def __iter__(self):
        return iter(self._s())
    def __bool__(self):
        return bool(self._s())
    def clear(self):
        self._s().clear()
    def update(self, xs):
        self._s().update(xs)



REPO = os.environ.get("VERIF_REPO", "/repo")
VERIF = os.path.dirname(os.path.dirname(os.path.abspath(__file__)))


class Undecided(Exception):
    """anchor lost / construct not supported: exit 2, never an alarm"""


# --------------------------------------------------------------------------------------------
class Out:
    def __init__(self):
        self.lines = [[]]  # each line: list of (text, origin)

    def emit(self, text, origin):
        """origin: ('repo', file, line) | ('tpl', file, line) | ('gen', why)"""
        parts = text.split("\n")
        for k, p in enumerate(parts):
            if k > 0:
                self.lines.append([])
                if origin[0] in ("repo", "tpl"):
                    origin = (origin[0], origin[1], origin[2] + 1)
            if p:
                self.lines[-1].append((p, origin))

    def nl(self):
        if self.lines[-1]:
            self.lines.append([])

    def text(self):
        return "\n".join("".join(p for p, _ in ln) for ln in self.lines) + "\n"

    def origin_at(self, line, col):
        """1-based line/col of the generated file -> origin"""
        if line - 1 >= len(self.lines):
            return ("gen", "eof")
        c = 1
        last = ("gen", "blank")
        for p, o in self.lines[line - 1]:
            last = o
            if c <= col < c + len(p):
                return o
            c += len(p)
        return last


# --------------------------------------------------------------------------------------------
class RepoFile:
    cache = {}

    def __init__(self, rel):
        self.rel = rel
        path = os.path.join(REPO, rel)
        if not os.path.exists(path):
            raise Undecided("lost anchor: file %s" % rel)
        self.src = open(path).read()
        try:
            self.toks = L.tokenize(self.src)
            self.items = L.top_items(self.toks)
        except L.LexError as e:
            raise Undecided("cannot lex %s: %s" % (rel, e))

    @classmethod
    def get(cls, rel):
        if rel not in cls.cache:
            cls.cache[rel] = RepoFile(rel)
        return cls.cache[rel]

    @classmethod
    def virtual(cls, rel, src):
        """a file that does not exist as such: text cut out of a real file by //@lift (a closure body given a name)"""
        rf = cls.__new__(cls)
        rf.rel, rf.src = rel, src
        try:
            rf.toks = L.tokenize(src)
            rf.items = L.top_items(rf.toks)
        except L.LexError as e:
            raise Undecided("cannot lex lifted text %s: %s" % (rel, e))
        cls.cache[rel] = rf
        return rf

    def find_item(self, kw, name):
        c = [i for i in self.items if i["kw"] == kw and i["name"] == name]
        if len(c) != 1:
            raise Undecided("lost anchor: %s %s in %s (%d candidates)" % (kw, name, self.rel, len(c)))
        return c[0]

    def find_impl(self, sub):
        c = [i for i in self.items if i["kw"] == "impl" and sub in L.impl_header(self.toks, i)]
        # prefer exact "for X" / inherent matches: pick the one with the shortest header if ambiguous
        if not c:
            raise Undecided("lost anchor: impl `%s` in %s" % (sub, self.rel))
        if len(c) > 1:
            def core(i):
                h = L.impl_header(self.toks, i)[4:].lstrip()
                if h.startswith("<"):
                    d = 0
                    for k, ch in enumerate(h):
                        if ch == "<":
                            d += 1
                        elif ch == ">":
                            d -= 1
                            if d == 0:
                                h = h[k + 1:].lstrip()
                                break
                return h
            exact = [i for i in c if core(i) == sub or core(i).startswith(sub + " where") or core(i).startswith(sub + " {")]
            if len(exact) == 1:
                return exact[0]
            raise Undecided("ambiguous impl `%s` in %s" % (sub, self.rel))
        return c[0]

    def fns_in(self, impl_item):
        return L.top_items(self.toks, impl_item["body_open"] + 1, impl_item["end"] - 1)


# --------------------------------------------------------------------------------------------
def strip_attrs_start(toks, item, derives=None):
    """index of the first token of the item after doc comments and droppable attributes (R9).
    Returns (start_index, kept_attr_text)."""
    i = item["start"]
    kept = []
    while i < item["kw_idx"]:
        t = toks[i]
        if t.kind in ("ws", "comment", "doc"):
            i += 1
            continue
        if t.kind == "punct" and t.text == "#":
            j = i + 1
            while toks[j].kind == "ws":
                j += 1
            e = L.match_close(toks, j)
            a = L.norm(L.text(toks, i, e + 1))
            if not re.match(r"#\[(derive|inline|allow|doc|must_use|cfg_attr)\b", a):
                raise Undecided("attribute %s not in the droppable list" % a)
            m = re.match(r"#\[derive\((.*)\)\]", a)
            if m and derives is not None:
                derives.extend(x.strip() for x in m.group(1).split(","))
            i = e + 1
            continue
        break
    return i


class Edit:
    def __init__(self, a, b, text, origin, order=0):
        self.a, self.b, self.text, self.origin, self.order = a, b, text, origin, order


def render(out, rf, a, b, edits):
    """emit repo tokens [a,b) with edits (replace token range [e.a,e.b) by e.text; a==b is insertion)."""
    toks = rf.toks
    edits = sorted(edits, key=lambda e: (e.a, e.order, e.b))
    for x, y in zip(edits, edits[1:]):
        if y.a < x.b:
            raise Undecided("overlapping edits at %s:%d" % (rf.rel, toks[y.a].line))
    k = 0
    i = a
    while i < b:
        while k < len(edits) and edits[k].a == i:
            e = edits[k]
            out.emit(e.text, e.origin)
            k += 1
            if e.b > e.a:
                i = e.b
                break
        else:
            t = toks[i]
            if t.kind == "doc":
                pass
            else:
                out.emit(t.text, ("repo", rf.rel, t.line))
            i += 1
            continue
    while k < len(edits) and edits[k].a == b:
        out.emit(edits[k].text, edits[k].origin)
        k += 1
    if k != len(edits):
        raise Undecided("edit outside range")


# --------------------------------------------------------------------------------------------
# Rewrites of executable text.  Each takes (rf, a, b) token range and returns list of (Edit, description).
def _sig(toks, a, b):
    return [i for i in range(a, b) if toks[i].kind not in ("ws", "comment", "doc")]


def _code_text(toks, a, b):
    """the code between two token indices without comments, doc comments and layout"""
    sg = [t.text for t in toks[a:b] if t.kind not in ("ws", "comment", "doc")]
    # a trailing comma in front of a closing bracket is layout (rustfmt adds it when it breaks a list over several lines)
    return " ".join(x for k, x in enumerate(sg) if not (x == "," and k + 1 < len(sg) and sg[k + 1] in (")", "]", "}")))


def _seq_at(toks, sg, k, words):
    if k + len(words) > len(sg):
        return False
    return all(toks[sg[k + j]].text == w for j, w in enumerate(words))


def _seq_at_anchor(toks, sg, k, words):
    """anchor lookup (//@before, //@after, //@blocktail): like _seq_at, but a trailing comma in front of a closing bracket (what
    rustfmt adds when it breaks an argument list over several lines) is skipped in the source"""
    x = k
    for w in words:
        if x < len(sg) and toks[sg[x]].text == "," and w in (")", "]", "}") and x + 1 < len(sg) and toks[sg[x + 1]].text == w:
            x += 1
        if x >= len(sg) or toks[sg[x]].text != w:
            return False
        x += 1
    return True


def rw_R1(rf, a, b):
    """dyn X + Send + 'static -> dyn X   (marker bounds on trait objects)"""
    toks, sg, out = rf.toks, _sig(rf.toks, a, b), []
    for k, i in enumerate(sg):
        if toks[i].text != "dyn":
            continue
        # path after dyn: idents and ::, generics <...>
        j = k + 1
        depth = 0
        while j < len(sg):
            tx = toks[sg[j]].text
            if tx == "<":
                depth += 1
            elif tx == ">" and depth > 0:
                depth -= 1
            elif depth == 0 and not (toks[sg[j]].kind == "ident" or tx == ":" or tx == "(" or tx == ")"):
                break
            j += 1
        # now optional `+ Marker` sequences
        first = j
        while j + 1 < len(sg) and toks[sg[j]].text == "+" and toks[sg[j + 1]].text in ("Send", "Sync", "'static"):
            j += 2
        if j > first:
            out.append((Edit(sg[first - 1] + 1, sg[j - 1] + 1, "", ("gen", "R1")),
                        "R1 %s:%d drop marker bounds `%s`" % (rf.rel, toks[i].line, L.norm(L.text(toks, sg[first], sg[j - 1] + 1)))))
    return out


def _expr_start_backwards(toks, sg, k):
    """sg[k] is the last token of a call expression `path::to::f(...)`; return sg index of its first token."""
    assert toks[sg[k]].text == ")"
    # find matching (
    depth = 0
    j = k
    while j >= 0:
        tx = toks[sg[j]].text
        if tx in ")]}":
            depth += 1
        elif tx in "([{":
            depth -= 1
            if depth == 0:
                break
        j -= 1
    # path before (
    j -= 1
    while j >= 0 and (toks[sg[j]].kind == "ident" or toks[sg[j]].text == ":"):
        j -= 1
    return j + 1


def rw_R3(rf, a, b):
    """E as Box<dyn T ...>  ->  verif_box_dyn_T(E)      (E is a call expression such as Box::new(..))"""
    toks, sg, out = rf.toks, _sig(rf.toks, a, b), []
    for k, i in enumerate(sg):
        if toks[i].text == "as" and _seq_at(toks, sg, k + 1, ["Box", "<", "dyn"]):
            tname = toks[sg[k + 4]].text
            # end of the type: matching >
            j = k + 2
            depth = 0
            while j < len(sg):
                if toks[sg[j]].text == "<":
                    depth += 1
                elif toks[sg[j]].text == ">":
                    depth -= 1
                    if depth == 0:
                        break
                j += 1
            if toks[sg[k - 1]].text != ")":
                raise Undecided("R3: cast operand is not a call at %s:%d" % (rf.rel, toks[i].line))
            s = _expr_start_backwards(toks, sg, k - 1)
            fn = "verif_box_dyn_%s" % tname
            out.append((Edit(sg[s], sg[s], fn + "(", ("gen", "R3")), "R3 %s:%d `.. as Box<dyn %s..>` -> %s(..)" % (rf.rel, toks[i].line, tname, fn)))
            out.append((Edit(sg[k - 1] + 1, sg[j] + 1, ")", ("gen", "R3")), None))
    return out


def rw_R4(rf, a, b):
    """IoError::new(kind, msg) -> verif_io_error(kind, msg)"""
    toks, sg, out = rf.toks, _sig(rf.toks, a, b), []
    for k, i in enumerate(sg):
        if toks[i].text == "IoError" and _seq_at(toks, sg, k + 1, [":", ":", "new", "("]):
            out.append((Edit(i, sg[k + 3] + 1, "verif_io_error", ("gen", "R4")), "R4 %s:%d IoError::new -> verif_io_error" % (rf.rel, toks[i].line)))
    return out


def rw_R5(rf, a, b):
    """vec![e; n] -> verif_vec_from_elem(e, n)"""
    toks, sg, out = rf.toks, _sig(rf.toks, a, b), []
    for k, i in enumerate(sg):
        if toks[i].text == "vec" and _seq_at(toks, sg, k + 1, ["!", "["]):
            close = L.match_close(toks, sg[k + 2])
            # find `;` at depth 0 inside
            depth = 0
            semi = None
            for j in range(sg[k + 2] + 1, close):
                tx = toks[j].text
                if toks[j].kind == "punct":
                    if tx in "([{":
                        depth += 1
                    elif tx in ")]}":
                        depth -= 1
                    elif tx == ";" and depth == 0:
                        semi = j
            if semi is None:
                continue  # vec![a, b, c] form: left alone
            out.append((Edit(i, sg[k + 2] + 1, "verif_vec_from_elem(", ("gen", "R5")), "R5 %s:%d vec![e; n] -> verif_vec_from_elem(e, n)" % (rf.rel, toks[i].line)))
            out.append((Edit(semi, semi + 1, ",", ("gen", "R5")), None))
            out.append((Edit(close, close + 1, ")", ("gen", "R5")), None))
    return out


def rw_R10(rf, a, b):
    """&mut V[a..] -> &mut V.as_mut_slice()[a..]   (V a plain identifier; only when the index is a range)"""
    toks, sg, out = rf.toks, _sig(rf.toks, a, b), []
    for k, i in enumerate(sg):
        if toks[i].text == "&" and _seq_at(toks, sg, k + 1, ["mut"]) and toks[sg[k + 2]].kind == "ident" and toks[sg[k + 3]].text == "[":
            close = L.match_close(toks, sg[k + 3])
            inner = L.text(toks, sg[k + 3] + 1, close)
            if ".." in inner and toks[sg[k + 2]].text in ("buffer",):
                out.append((Edit(sg[k + 3], sg[k + 3], ".as_mut_slice()", ("gen", "R10")), "R10 %s:%d &mut %s[range] -> &mut %s.as_mut_slice()[range]" % (rf.rel, toks[i].line, toks[sg[k + 2]].text, toks[sg[k + 2]].text)))
    return out


def rw_R13(rf, a, b):
    """constructor used as a function value:  .map(HeaderField) / .map_err(ReadError::ReadIoError) -> closure"""
    toks, sg, out = rf.toks, _sig(rf.toks, a, b), []
    for k, i in enumerate(sg):
        if toks[i].text in ("map", "map_err") and toks[sg[k + 1]].text == "(":
            close = L.match_close(toks, sg[k + 1])
            inner = [j for j in sg if sg[k + 1] < j < close]
            txt = "".join(toks[j].text for j in inner)
            if re.fullmatch(r"([A-Z][A-Za-z0-9]*::)*[A-Z][A-Za-z0-9]*", txt):
                ty = txt.rsplit("::", 1)[0] if "::" in txt else txt
                out.append((Edit(inner[0], inner[-1] + 1, "|__x| -> (__r: %s) ensures __r == %s(__x) { %s(__x) }" % (ty, txt, txt), ("gen", "R13")), "R13 %s:%d .%s(%s) -> eta-expanded closure (with its defining ensures)" % (rf.rel, toks[i].line, toks[i].text, txt)))
    return out


def rw_R14(rf, a, b):
    """|_| -> |__u|"""
    toks, sg, out = rf.toks, _sig(rf.toks, a, b), []
    for k, i in enumerate(sg):
        if toks[i].text == "|" and _seq_at(toks, sg, k + 1, ["_", "|"]):
            out.append((Edit(sg[k + 1], sg[k + 1] + 1, "__u", ("gen", "R14")), "R14 %s:%d |_| -> |__u|" % (rf.rel, toks[i].line)))
    return out


def rw_R2(rf, a, b):
    """Box<dyn FnMut() + Send> -> VerifTask   (the pool payload is never inspected)"""
    toks, sg, out = rf.toks, _sig(rf.toks, a, b), []
    words = ["Box", "<", "dyn", "FnMut", "(", ")", "+", "Send", ">"]
    for k, i in enumerate(sg):
        if _seq_at(toks, sg, k, words):
            out.append((Edit(i, sg[k + len(words) - 1] + 1, "VerifTask", ("gen", "R2")), "R2 %s:%d Box<dyn FnMut() + Send> -> VerifTask" % (rf.rel, toks[i].line)))
    return out


def rw_R7(rf, a, b):
    """<place>.load(ord) -> verif_protected_load(&<place>, ord)   (atomic counters written only under the lock)"""
    toks, sg, out = rf.toks, _sig(rf.toks, a, b), []
    for k, i in enumerate(sg):
        if toks[i].text == "load" and toks[sg[k - 1]].text == "." and toks[sg[k + 1]].text == "(":
            j = k - 2
            while j >= 0 and ((toks[sg[j]].kind == "ident" and toks[sg[j]].text not in KEYWORDS) or toks[sg[j]].text == "."):
                j -= 1
            s0 = sg[j + 1]
            out.append((Edit(s0, s0, "verif_protected_load(&", ("gen", "R7")), "R7 %s:%d <atomic>.load(ord) -> verif_protected_load(&<atomic>, ord)" % (rf.rel, toks[i].line)))
            out.append((Edit(sg[k - 1], sg[k + 1] + 1, ", ", ("gen", "R7")), None))
    return out



def rw_R15(rf, a, b):
    """`use crate::...;` inside a function body -> removed (single-file unit: all extracted items are in one flat module)"""
    toks, sg, out = rf.toks, _sig(rf.toks, a, b), []
    for k, i in enumerate(sg):
        if toks[i].text == "use" and k + 1 < len(sg) and toks[sg[k + 1]].text in ("crate", "chunked_transfer", "ascii", "httpdate"):
            j = k
            while toks[sg[j]].text != ";":
                j += 1
            out.append((Edit(i, sg[j] + 1, "", ("gen", "R15")), "R15 %s:%d `%s` removed (flat unit module)" % (rf.rel, toks[i].line, L.norm(L.text(toks, i, sg[j] + 1)))))
        # module qualifiers of crate-local paths:  crate::request::X / request::X  ->  X
        if toks[i].text == "crate" and _seq_at(toks, sg, k + 1, [":", ":"]) and toks[sg[k + 3]].text in CRATE_MODS and _seq_at(toks, sg, k + 4, [":", ":"]) and (k == 0 or toks[sg[k - 1]].text != "use"):
            out.append((Edit(i, sg[k + 5] + 1, "", ("gen", "R15")), "R15 %s:%d path qualifier `crate::%s::` removed (flat unit module)" % (rf.rel, toks[i].line, toks[sg[k + 3]].text)))
        elif toks[i].text in CRATE_MODS and toks[i].kind == "ident" and _seq_at(toks, sg, k + 1, [":", ":"]) and toks[sg[k + 3]].kind == "ident" and toks[sg[k + 3]].text[0].isupper() \
                and (k < 2 or not (toks[sg[k - 1]].text == ":" and toks[sg[k - 2]].text == ":")) and (k == 0 or toks[sg[k - 1]].text not in ("use", "crate")):
            out.append((Edit(i, sg[k + 2] + 1, "", ("gen", "R15")), "R15 %s:%d path qualifier `%s::` removed (flat unit module)" % (rf.rel, toks[i].line, toks[i].text)))
    return out



def rw_R2b(rf, a, b):
    """Box<dyn ReadWrite + Send> (type position, not after `as`) -> VerifBoxedStream: Verus' trait-conflict checker
    rejects `dyn ReadWrite` (supertraits Read + Write); the boxed stream is never inspected by the crate."""
    toks, sg, out = rf.toks, _sig(rf.toks, a, b), []
    words = ["Box", "<", "dyn", "ReadWrite", "+", "Send", ">"]
    for k, i in enumerate(sg):
        if _seq_at(toks, sg, k, words) and (k == 0 or toks[sg[k - 1]].text != "as"):
            out.append((Edit(i, sg[k + len(words) - 1] + 1, "VerifBoxedStream", ("gen", "R2b")), "R2b %s:%d Box<dyn ReadWrite + Send> -> VerifBoxedStream" % (rf.rel, toks[i].line)))
    return out



CRATE_MODS = {"request", "response", "common", "util", "client"}


def _extra_arg(toks, close, text):
    """text of an extra last argument for the call whose `)` is toks[close]: no second comma after a trailing one"""
    j = close - 1
    while j >= 0 and toks[j].kind in ("ws", "comment"):
        j -= 1
    return (" " if toks[j].text == "," else ", ") + text


def _recv_chain(toks, sg, k):
    """sg[k] is the `.` before a method name: return the index (into sg) of the first token of the receiver when it is a
    plain place expression `ident(.ident)*`, else None"""
    j = k - 1
    if j < 0 or toks[sg[j]].kind not in ("ident", "num"):
        return None
    while j - 2 >= 0 and toks[sg[j - 1]].text == "." and toks[sg[j - 2]].kind in ("ident", "num"):
        j -= 2
    if toks[sg[j]].kind != "ident":
        return None
    if j - 1 >= 0 and toks[sg[j - 1]].text in (".", ")", "]", "?", "::"):
        return None
    return j


def rw_R18(rf, a, b):
    """ghost clock threading: `Instant::now()` -> verif_now(Tracked(&mut verif_clk)); `<place>.elapsed()` ->
    verif_elapsed(&<place>, Tracked(&mut verif_clk)); `<place>.wait_timeout(g, d)` -> verif_wait_timeout(&<place>, g, d,
    Tracked(&mut verif_clk)).  The wrappers (prelude/time.rs) call the same std function; the extra argument is ghost
    (erased).  The function under contract declares `verif_clk` at its entry."""
    toks, sg, out = rf.toks, _sig(rf.toks, a, b), []
    clk = "Tracked(&mut verif_clk)"
    for k, i in enumerate(sg):
        t = toks[i]
        if t.kind != "ident":
            continue
        nxt = [toks[x].text for x in sg[k + 1:k + 6]]
        if t.text == "Instant" and nxt[:5] == [":", ":", "now", "(", ")"]:
            out.append((Edit(i, sg[k + 5] + 1, "verif_now(%s)" % clk, ("gen", "R18")), "R18 %s:%d `Instant::now()` -> verif_now(ghost clock)" % (rf.rel, t.line)))
        elif t.text == "elapsed" and k > 0 and toks[sg[k - 1]].text == "." and nxt[:2] == ["(", ")"]:
            j = _recv_chain(toks, sg, k - 1)
            if j is None:
                continue
            recv = L.text(toks, sg[j], sg[k - 1]).strip()
            out.append((Edit(sg[j], sg[k + 2] + 1, "verif_elapsed(&%s, %s)" % (recv, clk), ("gen", "R18")), "R18 %s:%d `%s.elapsed()` -> verif_elapsed(ghost clock)" % (rf.rel, t.line, recv)))
        elif t.text == "wait_timeout" and k > 0 and toks[sg[k - 1]].text == "." and nxt[:1] == ["("]:
            j = _recv_chain(toks, sg, k - 1)
            if j is None:
                continue
            recv = L.text(toks, sg[j], sg[k - 1]).strip()
            close = L.match_close(toks, sg[k + 1])
            out.append((Edit(sg[j], sg[k + 1] + 1, "verif_wait_timeout(&%s, " % recv, ("gen", "R18")), "R18 %s:%d `%s.wait_timeout(..)` -> verif_wait_timeout(.., ghost clock)" % (rf.rel, t.line, recv)))
            out.append((Edit(close, close, _extra_arg(toks, close, clk), ("gen", "R18")), None))
    return out




def _ghost_names(lines):
    """ghost variables that the template lines declare or assign (bookkeeping attached to an anchor)"""
    txt = "\n".join(l for l, _ in lines)
    names = set(re.findall(r"let\s+ghost\s+(?:mut\s+)?([A-Za-z_][A-Za-z0-9_]*)", txt))
    names |= set(re.findall(r"(?:proof\s*\{|;)\s*([A-Za-z_][A-Za-z0-9_]*)\s*=[^=]", txt))
    return names

def rw_R33(rf, a, b):
    """`<place>.split('c').filter_map(<closure>).collect()` -> the definition of that adapter chain for a Vec, written out:
    `{ let mut v = Vec::new(); let mut it = verif_split_char(<place>, 'c'); let mut f = <closure>; loop { match it.next() {
    Some(x) => { if let Some(y) = f(x) { v.push(y); } } None => break } } v }`  (iterator adapters are outside this Verus;
    the closure text itself is untouched)"""
    toks, sg, out = rf.toks, _sig(rf.toks, a, b), []
    for k, i in enumerate(sg):
        t = toks[i]
        if not (t.kind == "ident" and t.text == "filter_map" and k > 0 and toks[sg[k - 1]].text == "." and toks[sg[k + 1]].text == "("):
            continue
        close = L.match_close(toks, sg[k + 1])
        after = [x for x in sg if x > close][:4]
        if [toks[x].text for x in after] != [".", "collect", "(", ")"]:
            continue
        # receiver must be `<place>.split('<c>')`
        if toks[sg[k - 2]].text != ")":
            continue
        j = k - 2
        depth = 0
        while j >= 0:
            tx = toks[sg[j]].text
            if tx == ")":
                depth += 1
            elif tx == "(":
                depth -= 1
                if depth == 0:
                    break
            j -= 1
        if j < 2 or toks[sg[j - 1]].text != "split" or toks[sg[j - 2]].text != ".":
            continue
        args = [toks[x] for x in range(sg[j] + 1, sg[k - 2]) if toks[x].kind not in ("ws", "comment")]
        if len(args) != 1 or args[0].kind != "char":
            continue
        r0 = _recv_chain(toks, sg, j - 2)
        if r0 is None:
            continue
        recv = L.text(toks, sg[r0], sg[j - 2]).strip()
        out.append((Edit(sg[r0], sg[k + 1] + 1, "{ let mut __fm_v = Vec::new(); let mut __fm_it = verif_split_char(%s, %s); let mut __fm_f = " % (recv, args[0].text), ("gen", "R33")),
                    "R33 %s:%d `%s.split(%s).filter_map(..).collect()` written out as a loop over `.next()`" % (rf.rel, t.line, recv, args[0].text)))
        out.append((Edit(close, after[3] + 1, "; loop { match __fm_it.next() { Some(__fm_x) => { if let Some(__fm_y) = __fm_f(__fm_x) { __fm_v.push(__fm_y); } } None => break } } __fm_v }", ("gen", "R33")), None))
    return out


def rw_R34(rf, a, b):
    """`<expr>[<n>..]` where <expr> ends in a call to trim_start()/trim()/trim_end()/as_str() (a &str) -> verif_str_from(<expr>, <n>):
    slicing a str panics unless n is a char boundary within the string; the wrapper's precondition says so"""
    toks, sg, out = rf.toks, _sig(rf.toks, a, b), []
    for k, i in enumerate(sg):
        if toks[i].text != "[" or k < 3:
            continue
        if not (toks[sg[k - 1]].text == ")" and toks[sg[k - 2]].text == "(" and toks[sg[k - 3]].text in ("trim_start", "trim", "trim_end", "as_str")):
            continue
        close = L.match_close(toks, i)
        inner = [toks[x] for x in range(i + 1, close) if toks[x].kind not in ("ws", "comment")]
        if not (len(inner) == 3 and inner[0].kind == "num" and inner[1].text == "." and inner[2].text == "."):
            continue
        j = _recv_expr(toks, sg, k - 4) if toks[sg[k - 4]].text == "." else None
        if j is None:
            continue
        recv = L.text(toks, sg[j], i).strip()
        out.append((Edit(sg[j], close + 1, "verif_str_from(%s, %s)" % (recv, inner[0].text), ("gen", "R34")), "R34 %s:%d `%s[%s..]` -> verif_str_from" % (rf.rel, toks[i].line, recv, inner[0].text)))
    return out


def rw_R37(rf, a, b):
    """`log::debug!(..);` / `log::info!` / `warn!` / `error!` / `trace!` statements are dropped (logging is outside every
    property; format macros are outside this Verus).  Only whole statements `log::<level>!( .. );` are touched."""
    toks, sg, out = rf.toks, _sig(rf.toks, a, b), []
    for k, i in enumerate(sg):
        if toks[i].text == "log" and _seq_at(toks, sg, k + 1, [":", ":"]) and k + 5 < len(sg) and toks[sg[k + 3]].text in ("debug", "info", "warn", "error", "trace") \
                and toks[sg[k + 4]].text == "!" and toks[sg[k + 5]].text == "(" and (k == 0 or toks[sg[k - 1]].text in ("{", "}", ";")):
            close = L.match_close(toks, sg[k + 5])
            nxt = [x for x in sg if x > close][:1]
            if nxt and toks[nxt[0]].text == ";":
                out.append((Edit(i, nxt[0] + 1, "", ("gen", "R37")), "R37 %s:%d logging statement `log::%s!(..)` dropped" % (rf.rel, toks[i].line, toks[sg[k + 3]].text)))
    return out


def rw_R32(rf, a, b):
    """`<place>.fetch_add(n, ord)` / `.fetch_sub(n, ord)` -> verif_fetch_add(&<place>, n, ord) / verif_fetch_sub(..): same std call
    inside, with an effect witness as contract (vstd already declares a specification for these two, a second one is refused)"""
    toks, sg, out = rf.toks, _sig(rf.toks, a, b), []
    for k, i in enumerate(sg):
        t = toks[i]
        if t.kind == "ident" and t.text in ("fetch_add", "fetch_sub") and k > 0 and toks[sg[k - 1]].text == "." and toks[sg[k + 1]].text == "(":
            j = _recv_chain(toks, sg, k - 1)
            if j is None:
                continue
            recv = L.text(toks, sg[j], sg[k - 1]).strip()
            out.append((Edit(sg[j], sg[k + 1] + 1, "verif_%s(&%s, " % (t.text, recv), ("gen", "R32")), "R32 %s:%d `%s.%s(..)` -> verif_%s" % (rf.rel, t.line, recv, t.text, t.text)))
    return out


# names that hold an opaque task (R2 replaced `Box<dyn FnMut() + Send>` by VerifTask): `//@tasks f task` inside //@fn
R30_TASKS = _TLSet("tasks")


def rw_R30(rf, a, b):
    """`f();` on a variable holding an opaque task -> `f.verif_run();` (R2 made the boxed closure type opaque, so the call
    operator is gone; verif_run calls it)"""
    toks, sg, out = rf.toks, _sig(rf.toks, a, b), []
    for k, i in enumerate(sg):
        t = toks[i]
        if t.kind == "ident" and t.text in R30_TASKS and _seq_at(toks, sg, k + 1, ["(", ")"]) and (k == 0 or toks[sg[k - 1]].text in ("{", ";", "}")):
            out.append((Edit(i, sg[k + 2] + 1, "%s.verif_run()" % t.text, ("gen", "R30")), "R30 %s:%d `%s()` -> %s.verif_run()" % (rf.rel, t.line, t.text, t.text)))
    return out


# constructor paths that the template declares to be RAII counter guards (`//@guards <Path::new>` inside //@fn)
R29_GUARDS = _TLSet("guards")


def rw_R29(rf, a, b):
    """ghost bookkeeping for atomic counters and their RAII guards (only in functions whose template says `//@guards`):
    the function keeps two ghost maps, `verif_cnt` (the model of each counter's value) and `verif_mine` (this thread's own
    contribution to it).  (a) `<place>.fetch_add(n, ord);` / `.fetch_sub(..)` bump both by +n / -n;  (b) `let g =
    <Guard>::new(&<place>);` bumps both by +1 (the constructor's effect, proved on its body);  (c) where Rust drops `g` --
    the natural end of the block that declares it and every `return` / `break` / `continue` that leaves that block after
    the declaration (A-DROP, written out here by lexical scope) -- both are bumped by -1 (the effect of the guard's Drop,
    proved on its body).  Only ghost statements are inserted."""
    if not R29_GUARDS:
        return []
    toks, sg, out = rf.toks, _sig(rf.toks, a, b), []
    def bump(place, n):
        return "proof { verif_cnt = verif_bump(verif_cnt, atomic_id(&%s), %s); verif_mine = verif_bump(verif_mine, atomic_id(&%s), %s); }" % (place, n, place, n)
    def stmt_end(k):
        depth = 0
        for m in range(k, len(sg)):
            tx = toks[sg[m]].text
            if toks[sg[m]].kind == "punct":
                if tx in "([{":
                    depth += 1
                elif tx in ")]}":
                    if depth == 0:
                        return None
                    depth -= 1
                elif tx == ";" and depth == 0:
                    return m
        return None
    # blocks: (open_k, close_k) in sg indices
    pos = {i: k for k, i in enumerate(sg)}
    blocks = []
    for k, i in enumerate(sg):
        if toks[i].text == "{":
            c = L.match_close(toks, i)
            if c in pos:
                blocks.append((k, pos[c]))
    loops = [(pos[kw], pos[ob], pos[L.match_close(toks, ob)]) for kw, ob in find_loops(toks, a, b) if ob in pos and L.match_close(toks, ob) in pos]
    def enclosing_block(k):
        best = None
        for (o, c) in blocks:
            if o < k < c and (best is None or o > best[0]):
                best = (o, c)
        return best
    guards = []   # (decl_end_k, block, place)
    for k, i in enumerate(sg):
        t = toks[i]
        # (a) direct modifications
        if t.kind == "ident" and t.text in ("fetch_add", "fetch_sub") and k > 0 and toks[sg[k - 1]].text == "." and toks[sg[k + 1]].text == "(":
            j = _recv_chain(toks, sg, k - 1)
            close = L.match_close(toks, sg[k + 1])
            args = L.text(toks, sg[k + 1] + 1, close)
            n = args.split(",")[0].strip()
            e = stmt_end(k)
            if j is None or e is None or not re.match(r"^[0-9]+$", n):
                raise Undecided("R29: cannot model `%s` at %s:%d" % (t.text, rf.rel, t.line))
            place = L.text(toks, sg[j], sg[k - 1]).strip()
            out.append((Edit(sg[e] + 1, sg[e] + 1, " " + bump(place, n if t.text == "fetch_add" else "-" + n), ("gen", "R29")),
                        "R29 %s:%d ghost: `%s.%s(%s, ..)` bumps the counter model by %s%s" % (rf.rel, t.line, place, t.text, n, "+" if t.text == "fetch_add" else "-", n)))
        # (b) guard declarations  `let IDENT = Path::new(&PLACE);`
        if t.kind == "ident" and t.text == "let" and k + 3 < len(sg) and toks[sg[k + 1]].kind == "ident" and toks[sg[k + 2]].text == "=":
            e = stmt_end(k)
            if e is None:
                continue
            txt = L.norm(L.text(toks, sg[k + 3], sg[e])).replace(" ", "")
            for g in R29_GUARDS:
                m = re.match(r"^" + re.escape(g.replace(" ", "")) + r"\(&([A-Za-z_][A-Za-z0-9_.]*)\)$", txt)
                if m:
                    blk = enclosing_block(k)
                    if blk is None:
                        raise Undecided("R29: guard outside a block at %s:%d" % (rf.rel, t.line))
                    guards.append((e, blk, m.group(1), toks[sg[k + 1]].text, t.line))
                    out.append((Edit(sg[e] + 1, sg[e] + 1, " " + bump(m.group(1), "1"), ("gen", "R29")),
                                "R29 %s:%d ghost: guard `%s` registers on `%s` (+1)" % (rf.rel, t.line, toks[sg[k + 1]].text, m.group(1))))
    # (c) where the guards die
    for (e, (bo_k, bc_k), place, name, line) in guards:
        out.append((Edit(sg[bc_k], sg[bc_k], " " + bump(place, "-1") + " ", ("gen", "R29"), order=-5),
                    "R29 %s:%d ghost: guard `%s` dies at the end of its block and at every return/break/continue leaving it (-1)" % (rf.rel, line, name)))
        for k in range(e + 1, bc_k):
            t = toks[sg[k]]
            if t.kind != "ident" or t.text not in ("return", "break", "continue"):
                continue
            if t.text in ("break", "continue"):
                inner = None
                for (kw_k, lo_k, lc_k) in loops:
                    if lo_k < k < lc_k and (inner is None or lo_k > inner[0]):
                        inner = (lo_k, lc_k)
                if inner is None or not (inner[0] <= bo_k and bc_k <= inner[1]):
                    continue      # the loop being left is nested inside the guard's block: the guard survives
            out.append((Edit(sg[k], sg[k], bump(place, "-1") + " ", ("gen", "R29"), order=-5), None))
        if any(toks[sg[k]].text == "?" for k in range(e + 1, bc_k)):
            raise Undecided("R29: `?` inside the scope of guard `%s` (%s:%d) is not elaborated" % (name, rf.rel, line))
    return out


# names that the template declares to BE iterators (`//@iterator <name>` inside //@fn): `for x in <name>` is desugared too
R23_ITERATORS = _TLSet("iterators")


def rw_R23(rf, a, b):
    """`for PAT in EXPR { .. }` -> the desugaring `{ let mut it = EXPR; loop { let PAT = match it.next() {
    Some(v) => v, None => break }; .. } }` (this Verus has no `continue` in for-loops, and the contracts can then name the
    iterator; applied to every `for` whose EXPR is already an iterator:
    `.iter()`, `.iter_mut()`, `.into_iter()`, so that IntoIterator::into_iter is the identity)"""
    toks, sg, out = rf.toks, _sig(rf.toks, a, b), []
    n = 0
    for k, i in enumerate(sg):
        if toks[i].kind == "ident" and toks[i].text == "for" and (k == 0 or toks[sg[k - 1]].text in ("{", "}", ";")):
            # pattern up to `in`
            kin = None
            depth = 0
            for m in range(k + 1, len(sg)):
                tx = toks[sg[m]].text
                if tx in "([":
                    depth += 1
                elif tx in ")]":
                    depth -= 1
                elif tx == "in" and depth == 0 and toks[sg[m]].kind == "ident":
                    kin = m
                    break
                elif tx in ("{", ";"):
                    break
            if kin is None:
                continue
            kopen = None
            depth = 0
            for m in range(kin + 1, len(sg)):
                tx = toks[sg[m]].text
                if tx in "([":
                    depth += 1
                elif tx in ")]":
                    depth -= 1
                elif tx == "{" and depth == 0:
                    kopen = m
                    break
            if kopen is None:
                continue
            close = L.match_close(toks, sg[kopen])
            expr = L.text(toks, sg[kin + 1], sg[kopen]).strip()
            if not re.search(r"\.\s*(iter|iter_mut|into_iter)\s*\(\s*\)$", expr) and expr not in R23_ITERATORS:
                continue
            pat = L.text(toks, sg[k + 1], sg[kin]).strip()
            n += 1
            it = "__it%d" % n
            # the body's own `{` stays where it is, so that loop invariants spliced in front of it and loop-entry text spliced
            # behind it land in the rewritten loop
            out.append((Edit(i, sg[kopen], "{ let mut %s = %s; loop " % (it, expr), ("gen", "R23")),
                        "R23 %s:%d `for %s in %s` -> desugared `loop` over `.next()` (iterator `%s`)" % (rf.rel, toks[i].line, pat, expr, it)))
            out.append((Edit(sg[kopen] + 1, sg[kopen] + 1, " let %s = match %s.next() { Some(__v) => __v, None => break };" % (pat, it), ("gen", "R23"), order=-4), None))
            out.append((Edit(close + 1, close + 1, " }", ("gen", "R23")), None))
    return out


def rw_R24(rf, a, b):
    """float ordering and sorting go through contract-carrying wrappers (prelude/float.rs), same std call inside:
    `<p>.sort_by(f)` -> verif_sort_by(&mut <p>, f, Ghost(key)); `<x.N>.partial_cmp(&<y.M>)` on tuple fields ->
    verif_f32_partial_cmp(&x.N, &y.M); `<p>.is_nan()` -> verif_f32_is_nan(<p>)"""
    toks, sg, out = rf.toks, _sig(rf.toks, a, b), []
    for k, i in enumerate(sg):
        t = toks[i]
        # `<place> <= <float literal>` -> verif_f32_le(<place>, <literal>)
        if t.kind == "num" and re.match(r"^[0-9][0-9_]*\.[0-9][0-9_]*(f32)?$", t.text) and k >= 3 \
                and toks[sg[k - 1]].text == "=" and toks[sg[k - 2]].text == "<" and toks[sg[k - 3]].kind in ("ident", "num"):
            j = k - 3
            while j - 2 >= 0 and toks[sg[j - 1]].text == "." and toks[sg[j - 2]].kind in ("ident", "num"):
                j -= 2
            if toks[sg[j]].kind == "ident" and (j == 0 or toks[sg[j - 1]].text not in (".", ")", "]")):
                recv = L.text(toks, sg[j], sg[k - 2]).strip()
                out.append((Edit(sg[j], i + 1, "verif_f32_le(%s, %s)" % (recv, t.text), ("gen", "R24")), "R24 %s:%d `%s <= %s` -> verif_f32_le" % (rf.rel, t.line, recv, t.text)))
            continue
        if t.kind != "ident" or k == 0 or toks[sg[k - 1]].text != "." or k + 1 >= len(sg) or toks[sg[k + 1]].text != "(":
            continue
        if t.text == "sort_by":
            j = _recv_chain(toks, sg, k - 1)
            if j is None:
                continue
            recv = L.text(toks, sg[j], sg[k - 1]).strip()
            close = L.match_close(toks, sg[k + 1])
            out.append((Edit(sg[j], sg[k + 1] + 1, "verif_sort_by(&mut %s, " % recv, ("gen", "R24")), "R24 %s:%d `%s.sort_by(..)` -> verif_sort_by(.., ghost key)" % (rf.rel, t.line, recv)))
            out.append((Edit(close, close, _extra_arg(toks, close, "Ghost(|e| verif_sort_key(e))"), ("gen", "R24"), order=3), None))
        elif t.text == "is_nan" and toks[sg[k + 2]].text == ")":
            j = _recv_chain(toks, sg, k - 1)
            if j is None:
                continue
            recv = L.text(toks, sg[j], sg[k - 1]).strip()
            out.append((Edit(sg[j], sg[k + 2] + 1, "verif_f32_is_nan(%s)" % recv, ("gen", "R24")), "R24 %s:%d `%s.is_nan()` -> verif_f32_is_nan" % (rf.rel, t.line, recv)))
        elif t.text == "partial_cmp" and toks[sg[k - 2]].kind == "num" and toks[sg[k + 2]].text == "&":
            j = _recv_chain(toks, sg, k - 1)
            if j is None:
                continue
            recv = L.text(toks, sg[j], sg[k - 1]).strip()
            close = L.match_close(toks, sg[k + 1])
            arg = L.text(toks, sg[k + 2], close).strip()
            if not re.match(r"^&\s*[A-Za-z_][A-Za-z0-9_]*(\s*\.\s*[A-Za-z0-9_]+)*$", arg):
                continue
            out.append((Edit(sg[j], close + 1, "verif_f32_partial_cmp(&%s, %s)" % (recv, arg), ("gen", "R24")), "R24 %s:%d `%s.partial_cmp(%s)` -> verif_f32_partial_cmp" % (rf.rel, t.line, recv, arg)))
    return out


def rw_R25(rf, a, b):
    """`<place>.split('c')` -> verif_split_char(<place>, 'c');  `<place>.splitn(n, 'c')` -> verif_splitn_char(<place>, n, 'c');
    `<place>.split_once('c' | "lit")` -> verif_split_once_char / verif_split_once_str
    (prelude/split.rs: str::Split is generic over Pattern, which this Verus cannot declare; same std call inside)"""
    toks, sg, out = rf.toks, _sig(rf.toks, a, b), []
    for k, i in enumerate(sg):
        t = toks[i]
        if t.kind != "ident" or t.text not in ("split", "splitn", "split_once") or k == 0 or toks[sg[k - 1]].text != "." or toks[sg[k + 1]].text != "(":
            continue
        close = L.match_close(toks, sg[k + 1])
        args = [toks[x] for x in range(sg[k + 1] + 1, close) if toks[x].kind not in ("ws", "comment")]
        ok = (t.text == "split" and len(args) == 1 and args[0].kind == "char") or \
             (t.text == "splitn" and len(args) == 3 and args[0].kind == "num" and args[1].text == "," and args[2].kind == "char") or \
             (t.text == "split_once" and len(args) == 1 and args[0].kind in ("char", "str") and not args[0].text.startswith(("b", "r")))
        if not ok:
            continue
        j = _recv_chain(toks, sg, k - 1)
        if j is None:
            continue
        recv = L.text(toks, sg[j], sg[k - 1]).strip()
        fn = {"split": "verif_split_char", "splitn": "verif_splitn_char"}.get(t.text) or ("verif_split_once_char" if args[0].kind == "char" else "verif_split_once_str")
        out.append((Edit(sg[j], sg[k + 1] + 1, "%s(%s, " % (fn, recv), ("gen", "R25")), "R25 %s:%d `%s.%s(..)` -> %s" % (rf.rel, t.line, recv, t.text, fn)))
    return out


def _recv_expr(toks, sg, k):
    """like _recv_chain, but the receiver may contain method calls: `ident(.ident | .ident(..))*`.  sg[k] is the `.` before
    the method name; returns the index (into sg) of the first token of the receiver, or None"""
    j = k - 1
    while True:
        if j < 0:
            return None
        if toks[sg[j]].text == ")":
            depth = 0
            while j >= 0:
                tx = toks[sg[j]].text
                if tx == ")":
                    depth += 1
                elif tx == "(":
                    depth -= 1
                    if depth == 0:
                        break
                j -= 1
            j -= 1      # the method / function name
            if j < 0 or toks[sg[j]].kind != "ident":
                return None
        elif toks[sg[j]].kind not in ("ident", "num"):
            return None
        if j - 1 >= 0 and toks[sg[j - 1]].text == ".":
            j -= 2
            continue
        break
    if toks[sg[j]].kind != "ident" or (j - 1 >= 0 and toks[sg[j - 1]].text in (")", "]", "?", "::")):
        return None
    return j


def rw_R26(rf, a, b):
    """`<place>.parse()` -> FromStr::from_str(<place>)   (str::parse is exactly that call; the target type is inferred as before)"""
    toks, sg, out = rf.toks, _sig(rf.toks, a, b), []
    for k, i in enumerate(sg):
        t = toks[i]
        if t.kind == "ident" and t.text == "parse" and k > 0 and toks[sg[k - 1]].text == "." and _seq_at(toks, sg, k + 1, ["(", ")"]):
            j = _recv_expr(toks, sg, k - 1)
            if j is None:
                continue
            recv = L.text(toks, sg[j], sg[k - 1]).strip()
            out.append((Edit(sg[j], sg[k + 2] + 1, "FromStr::from_str(%s)" % recv, ("gen", "R26")), "R26 %s:%d `%s.parse()` -> FromStr::from_str(%s)" % (rf.rel, t.line, recv, recv)))
    return out


def rw_R27(rf, a, b):
    """`ToOwned::to_owned` used as a function VALUE (e.g. `.map(ToOwned::to_owned)` on an `Option<&str>`) -> the closure
    `|x: &str| x.to_owned()` with the contract vstd gives str::to_owned (a trait method path is not a value this Verus
    accepts; if the argument is not a &str the unit no longer type-checks and the run is undecided)"""
    toks, sg, out = rf.toks, _sig(rf.toks, a, b), []
    for k, i in enumerate(sg):
        if _seq_at(toks, sg, k, ["(", "ToOwned", ":", ":", "to_owned", ")"]):
            out.append((Edit(sg[k + 1], sg[k + 4] + 1, "|__x: &str| -> (__r: String) ensures __r@ == __x@ { __x.to_owned() }", ("gen", "R27")),
                        "R27 %s:%d `ToOwned::to_owned` as a function value -> |x: &str| x.to_owned()" % (rf.rel, toks[i].line)))
    return out


def rw_R19(rf, a, b):
    """Box::new(Cursor::new(x)) / Box::new(io::empty()) as body readers -> verif_cursor(x) / verif_empty(): local opaque
    reader types (Verus' trait-conflict checker cannot see std's `impl Read for Cursor<T>` / `Empty`); same-body wrappers."""
    toks, sg, out = rf.toks, _sig(rf.toks, a, b), []
    for k, i in enumerate(sg):
        if _seq_at(toks, sg, k, ["Box", ":", ":", "new", "(", "Cursor", ":", ":", "new", "("]):
            out.append((Edit(sg[k + 5], sg[k + 9], "verif_cursor", ("gen", "R19")), "R19 %s:%d Cursor::new(..) as body reader -> verif_cursor(..)" % (rf.rel, toks[i].line)))
        if _seq_at(toks, sg, k, ["Cursor", "<", "Vec", "<", "u8", ">", ">"]):
            out.append((Edit(i, sg[k + 6] + 1, "VerifCursor", ("gen", "R19")), "R19 %s:%d type Cursor<Vec<u8>> -> VerifCursor" % (rf.rel, toks[i].line)))
        if _seq_at(toks, sg, k, ["Cursor", ":", ":", "new", "("]) and not (k >= 5 and _seq_at(toks, sg, k - 5, ["Box", ":", ":", "new", "("])):
            out.append((Edit(i, sg[k + 3] + 1, "verif_cursor", ("gen", "R19")), "R19 %s:%d Cursor::new(..) -> verif_cursor(..)" % (rf.rel, toks[i].line)))
        if _seq_at(toks, sg, k, ["Box", ":", ":", "new", "(", "io", ":", ":", "empty", "(", ")"]):
            out.append((Edit(sg[k + 5], sg[k + 9], "verif_empty", ("gen", "R19")), "R19 %s:%d io::empty() as body reader -> verif_empty()" % (rf.rel, toks[i].line)))
    return out



def rw_R20(rf, a, b):
    """BufReader<RefinedTcpStream> / BufWriter<RefinedTcpStream> (type position) -> VerifBufReader / VerifBufWriter:
    local opaque stand-ins (the trait-conflict checker cannot see std's `impl Read for BufReader<R>`)."""
    toks, sg, out = rf.toks, _sig(rf.toks, a, b), []
    for k, i in enumerate(sg):
        for nm, new in (("BufReader", "VerifBufReader"), ("BufWriter", "VerifBufWriter")):
            if _seq_at(toks, sg, k, [nm, "<", "RefinedTcpStream", ">"]):
                out.append((Edit(i, sg[k + 3] + 1, new, ("gen", "R20")), "R20 %s:%d %s<RefinedTcpStream> -> %s" % (rf.rel, toks[i].line, nm, new)))
    return out



def rw_R21(rf, a, b):
    """io::copy(r, w) -> verif_io_copy(r, w)   (vstd has no spec for io::copy; same-body wrapper)"""
    toks, sg, out = rf.toks, _sig(rf.toks, a, b), []
    for k, i in enumerate(sg):
        if toks[i].text == "io" and _seq_at(toks, sg, k + 1, [":", ":", "copy", "("]):
            out.append((Edit(i, sg[k + 3] + 1, "verif_io_copy", ("gen", "R21")), "R21 %s:%d io::copy -> verif_io_copy" % (rf.rel, toks[i].line)))
    return out


def rw_R8(rf, a, b):
    """format!("{}", x) -> verif_fmt_display(x)   (core::fmt is outside Verus; same-body wrapper)"""
    toks, sg, out = rf.toks, _sig(rf.toks, a, b), []
    for k, i in enumerate(sg):
        if toks[i].text == "format" and _seq_at(toks, sg, k + 1, ["!", "("]) and toks[sg[k + 3]].text == '"{}"' and toks[sg[k + 4]].text == ",":
            out.append((Edit(i, sg[k + 4] + 1, "verif_fmt_display(", ("gen", "R8")), "R8 %s:%d format!(\"{}\", x) -> verif_fmt_display(x)" % (rf.rel, toks[i].line)))
    return out


def rw_R22(rf, a, b):
    """&b"TEXT"[..] -> verif_lit_bytes("TEXT")   (Verus does not see the contents of byte-string literals; the extractor
    checks that TEXT is plain ASCII without escapes, so that "TEXT".as_bytes() is the same value)"""
    toks, sg, out = rf.toks, _sig(rf.toks, a, b), []
    for k, i in enumerate(sg):
        if toks[i].text == "&" and toks[sg[k + 1]].kind == "str" and toks[sg[k + 1]].text.startswith('b"') and _seq_at(toks, sg, k + 2, ["[", ".", ".", "]"]):
            lit = toks[sg[k + 1]].text[2:-1]
            if "\\" in lit or any(ord(c) >= 128 or ord(c) < 32 for c in lit):
                raise Undecided("R22: byte-string literal with escapes or non-ASCII content at %s:%d" % (rf.rel, toks[i].line))
            out.append((Edit(i, sg[k + 5] + 1, 'verif_lit_bytes("%s")' % lit, ("gen", "R22")), "R22 %s:%d &b\"%s\"[..] -> verif_lit_bytes(\"%s\")" % (rf.rel, toks[i].line, lit, lit)))
    return out


def rw_R3b(rf, a, b):
    """(Box::new(X), ..) as first tuple component where a Box<dyn Read> is expected -> (verif_box_dyn_Read(Box::new(X)), ..):
    the implicit unsizing coercion made explicit (only in raw_print's reader selection)"""
    toks, sg, out = rf.toks, _sig(rf.toks, a, b), []
    for k, i in enumerate(sg):
        if toks[i].text == "(" and _seq_at(toks, sg, k + 1, ["Box", ":", ":", "new", "("]) and toks[sg[k - 1]].text in (">", "{", "(", ";"):
            if toks[sg[k - 1]].text == ">" and toks[sg[k - 2]].text != "=":
                continue
            close = L.match_close(toks, sg[k + 5])
            nxt = [j for j in sg if j > close][0]
            if toks[nxt].text == ",":
                out.append((Edit(sg[k + 1], sg[k + 1], "verif_box_dyn_Read(", ("gen", "R3b")), "R3b %s:%d implicit Box<R> -> Box<dyn Read> coercion made explicit" % (rf.rel, toks[i].line)))
                out.append((Edit(close + 1, close + 1, ")", ("gen", "R3b")), None))
    return out



def rw_R5b(rf, a, b):
    """Vec::with_capacity(n) -> verif_vec_with_capacity(n);  v.resize(n, x) -> verif_vec_resize(&mut v, n, x);  v.reserve(n) ->
    verif_vec_reserve(&mut v, n): the other ways to allocate a length-proportional buffer carry the same resource
    precondition as vec![e; n] (C14)"""
    toks, sg, out = rf.toks, _sig(rf.toks, a, b), []
    for k, i in enumerate(sg):
        if toks[i].text == "Vec" and _seq_at(toks, sg, k + 1, [":", ":", "with_capacity", "("]):
            out.append((Edit(i, sg[k + 3] + 1, "verif_vec_with_capacity", ("gen", "R5b")), "R5b %s:%d Vec::with_capacity -> verif_vec_with_capacity" % (rf.rel, toks[i].line)))
        if toks[i].text in ("resize", "reserve") and toks[sg[k - 1]].text == "." and toks[sg[k + 1]].text == "(" and toks[sg[k - 2]].kind == "ident" and toks[sg[k - 3]].text not in (".", ":"):
            recv = toks[sg[k - 2]]
            out.append((Edit(sg[k - 2], sg[k + 1] + 1, "verif_vec_%s(&mut %s, " % (toks[i].text, recv.text), ("gen", "R5b")), "R5b %s:%d %s.%s(..) -> verif_vec_%s(&mut %s, ..)" % (rf.rel, toks[i].line, recv.text, toks[i].text, toks[i].text, recv.text)))
    return out


REWRITES = {"R37": rw_R37, "R33": rw_R33, "R34": rw_R34, "R32": rw_R32, "R30": rw_R30, "R29": rw_R29, "R27": rw_R27, "R26": rw_R26, "R25": rw_R25, "R23": rw_R23, "R24": rw_R24, "R5b": rw_R5b, "R21": rw_R21, "R8": rw_R8, "R22": rw_R22, "R3b": rw_R3b, "R20": rw_R20, "R19": rw_R19, "R18": rw_R18, "R2b": rw_R2b, "R15": rw_R15, "R2": rw_R2, "R7": rw_R7, "R3": rw_R3, "R1": rw_R1, "R4": rw_R4, "R5": rw_R5, "R10": rw_R10, "R13": rw_R13, "R14": rw_R14}


# --------------------------------------------------------------------------------------------
LOOP_KW = ("loop", "while", "for")
KEYWORDS = {"if", "while", "match", "return", "let", "in", "else", "for", "loop", "mut", "ref", "move", "as", "break", "continue"}


def find_loops(toks, a, b):
    """loop heads in body [a,b): list of (kw_index, open_brace_index)"""
    res = []
    sg = _sig(toks, a, b)
    for k, i in enumerate(sg):
        t = toks[i]
        if t.kind == "ident" and t.text in LOOP_KW:
            if t.text == "for" and k + 1 < len(sg) and toks[sg[k + 1]].text == "<":
                continue
            depth = 0
            for j in sg[k + 1:]:
                tx = toks[j].text
                if toks[j].kind != "punct":
                    continue
                if tx in "([":
                    depth += 1
                elif tx in ")]":
                    depth -= 1
                elif tx == "{" and depth == 0:
                    res.append((i, j))
                    break
    return res


CLOSURE_PREV = {"(", ",", "=", "{", ";", ">", "move", "return", "["}


def find_closures(toks, a, b):
    """closures in [a,b): list of (bar1_index, bar2_index, body_start, body_end_exclusive, is_block)"""
    res = []
    sg = _sig(toks, a, b)
    k = 0
    while k < len(sg):
        i = sg[k]
        if toks[i].text == "|" and k > 0:
            prev = toks[sg[k - 1]].text
            prev2 = toks[sg[k - 2]].text if k > 1 else ""
            is_start = prev in CLOSURE_PREV and not (prev == ">" and prev2 != "=")
            if prev == "=" and prev2 in ("=", "!", "<", ">"):
                is_start = True  # `== |` impossible in practice; keep simple
            if is_start:
                # find closing bar
                m = k + 1
                while toks[sg[m]].text != "|":
                    m += 1
                bar2 = sg[m]
                nxt = m + 1
                # optional -> type
                if toks[sg[nxt]].text == "-" and toks[sg[nxt + 1]].text == ">":
                    raise Undecided("closure with declared return type not handled")
                if toks[sg[nxt]].text == "{":
                    e = L.match_close(toks, sg[nxt]) + 1
                    res.append((i, bar2, sg[nxt], e, True))
                else:
                    depth = 0
                    e = None
                    for j in sg[nxt:]:
                        tx = toks[j].text
                        if toks[j].kind == "punct":
                            if tx in "([{":
                                depth += 1
                            elif tx in ")]}":
                                if depth == 0:
                                    e = j
                                    break
                                depth -= 1
                            elif tx in ",;" and depth == 0:
                                e = j
                                break
                    if e is None:
                        raise Undecided("closure end not found")
                    # trim trailing whitespace
                    ee = e
                    while toks[ee - 1].kind in ("ws", "comment"):
                        ee -= 1
                    res.append((i, bar2, sg[nxt], ee, False))
                k = m + 1
                continue
        k += 1
    return res


# --------------------------------------------------------------------------------------------
class FnSpec:
    def __init__(self, name):
        self.name = name
        self.newname = None
        self.ret = None
        self.props = []
        self.spec = []        # list of (text, tplline)
        self.entry = []
        self.exit = []
        self.loops = {}       # k -> lines
        self.loopentry = {}
        self.loopexit = {}
        self.iterators = set()
        self.guards = set()
        self.tasks = set()
        self.blocktail = []
        self.closures = {}    # k -> (header, tplline)
        self.closures_by_text = []
        self.before = []      # (k, token, lines)
        self.after = []
        self.no = set()
        self.assume = False
        self.wraptail = None
        self.atexit = []
        self.binds = []       # (name, regex): `$name` in before/after lines = group 1 of the regex in the function's own text
        self.tpl_line = 0


class Unit:
    def __init__(self, tpl_path):
        self.tpl_path = tpl_path
        self.tpl_rel = os.path.relpath(tpl_path, VERIF)
        self.out = Out()
        self.fns = []          # dicts: name, qual, file, out_first, out_last, props, clauses
        self.rewrites = []
        self.trusted = []
        self.cur_impl = None
        self.includes = []
        self.assumed = []
        self.required = []
        self.lost_closures = {}   # fn -> closure selectors that matched nothing
        self.bare_closures = {}   # fn -> closures left without a contract (non-trivial bodies)
        self.bare_loops = {}      # fn -> number of loops without a template invariant
        self.callees = {}         # fn -> names called in the body (as written in /repo)
        self.lifted_ranges = {}   # file -> token ranges of closure bodies lifted into functions (R28)
        self.trusted_text = {}    # "<file>: <qualified fn>" -> text of a function whose contract is ASSUMED here (//@assume) or that is only watched (//@watch)
        self.lost_required = {}   # fn -> required before/after anchors that found no statement
        self.lost_optional = {}   # fn -> optional before?/after? anchors that found no statement (their hints are missing)
        self.item_text = {}       # `kw Name` -> normalised text of every type definition the unit extracts
        self.strlit_patterns = {} # fn -> number of string-literal patterns (`"lit" =>`, `"lit" |`) in its text
        self.lost_ghost = {}   # fn -> ghost variables whose bookkeeping was attached to an optional anchor that is gone

    # -- template parsing --
    def build(self, vacuity=False):
        self.vacuity = vacuity
        lines = open(self.tpl_path).read().split("\n")
        self._process(lines, self.tpl_rel)
        return self.out.text()

    def _process(self, lines, relname):
        i = 0
        n = len(lines)
        while i < n:
            ln = lines[i]
            s = ln.strip()
            if not s.startswith("//@"):
                self.out.emit(ln + "\n", ("tpl", relname, i + 1))
                i += 1
                continue
            d = s[3:].split()
            cmd = d[0]
            if cmd == "include":
                p = os.path.join(VERIF, d[1])
                self.includes.append(d[1])
                self._process(open(p).read().split("\n"), d[1])
                i += 1
            elif cmd == "item":
                self._item(d[1], d[2], d[3])
                i += 1
            elif cmd == "watch":
                # //@watch <file> "<substring of impl header>"|- <fn>: code the unit's claims rely on but that is outside the verifier
                # (formatting through core::fmt, OS wrappers): nothing is emitted, its text is pinned to the reference tree
                m = re.match(r'//@watch\s+(\S+)\s+(?:"([^"]+)"|-)\s+(\w+)', s)
                if not m:
                    raise Undecided("bad //@watch at %s:%d" % (relname, i + 1))
                rf = RepoFile.get(m.group(1))
                cands = []
                if m.group(2) is None:
                    cands = [f for f in rf.items if f["kw"] == "fn" and f["name"] == m.group(3)]
                else:
                    for it in rf.items:
                        if it["kw"] == "impl" and it["body_open"] is not None and m.group(2) in L.impl_header(rf.toks, it):
                            cands += [f for f in rf.fns_in(it) if f["kw"] == "fn" and f["name"] == m.group(3)]
                key = "%s: %s%s" % (m.group(1), (m.group(2) + "::") if m.group(2) else "", m.group(3))
                if len(cands) == 1:
                    a0, b0 = cands[0]["start"], cands[0]["end"]
                    cut = sorted(r for r in self.lifted_ranges.get(m.group(1), []) if a0 <= r[0] and r[1] <= b0)
                    parts, x = [], a0
                    for ra, rb in cut:
                        parts.append(_code_text(rf.toks, x, ra)); parts.append("<lifted>"); x = rb
                    parts.append(_code_text(rf.toks, x, b0))
                    self.trusted_text[key] = " ".join(parts)
                else:
                    self.trusted_text[key] = "<absent or ambiguous>"
                i += 1
            elif cmd == "lift":
                # //@lift <file> <enclosing fn> ~closure selector~ <virtual file name> <signature of the new function>
                m = re.match(r"//@lift\s+(\S+)\s+(\S+)\s+~(.+?)~\s+(\S+)\s+(fn\s.*)$", s)
                if not m:
                    raise Undecided("bad //@lift at %s:%d" % (relname, i + 1))
                self._lift(m.group(1), m.group(2), m.group(3), m.group(4), m.group(5))
                i += 1
            elif cmd == "impl":
                m = re.match(r'//@impl\s+(\S+)\s+"([^"]+)"(\s+inherent)?(\s+required)?', s)
                if not m:
                    raise Undecided("bad //@impl directive at %s:%d" % (relname, i + 1))
                if m.group(4):
                    # DESIGN 3.5: an impl a property DEPENDS on (e.g. a Drop that drains).  If it is gone, that is
                    # not a lost anchor but a failed obligation: emit one, and skip the block.
                    rf = RepoFile.get(m.group(1))
                    present = any(it["kw"] == "impl" and m.group(2) in L.impl_header(rf.toks, it) for it in rf.items)
                    nm = "required_impl__" + re.sub(r"[^A-Za-z0-9]+", "_", m.group(2)).strip("_")
                    self.required.append(dict(name=nm, present=present, file=m.group(1), header=m.group(2)))
                    if not present:
                        self.out.emit("proof fn %s() { assert(false); } // REQUIRED-IMPL-MISSING: `impl %s` in %s\n" % (nm, m.group(2), m.group(1)), ("tpl", relname, i + 1))
                        j = i + 1
                        while j < n and lines[j].strip() != "//@endimpl":
                            j += 1
                        i = j + 1
                        continue
                self._impl(m.group(1), m.group(2), bool(m.group(3)))
                i += 1
            elif cmd == "endimpl":
                self.out.nl()
                self.out.emit("}\n", ("gen", "endimpl"))
                self.cur_impl = None
                i += 1
            elif cmd == "fn":
                j = i + 1
                while j < n and lines[j].strip() != "//@endfn":
                    j += 1
                if j >= n:
                    raise Undecided("unterminated //@fn at %s:%d" % (relname, i + 1))
                self._fn(d[1:], lines[i + 1:j], relname, i + 1)
                i = j + 1
            else:
                raise Undecided("unknown directive %s at %s:%d" % (cmd, relname, i + 1))

    def _apply_rewrites(self, rf, a, b, no=()):
        edits = []
        for name, f in REWRITES.items():
            if name in no:
                continue
            for e, desc in f(rf, a, b):
                # an earlier rewrite (R2 before R1) may already have replaced this range
                if any(o.a < max(e.b, e.a + 1) and e.a < o.b for o in edits):
                    continue
                edits.append(e)
                if desc:
                    self.rewrites.append(desc)
        return edits

    def _lift(self, rel, fn_name, selector, vrel, signature):
        """R28: the body of a closure (e.g. the one handed to thread::spawn / TaskPool::spawn) becomes the body of a named
        function, verbatim; the closure's captured variables become the parameters named in `signature` (written in the
        template: the captures of a `move` closure are not spelled out in the source)."""
        rf = RepoFile.get(rel)
        cands = [f for f in rf.items if f["kw"] == "fn" and f["name"] == fn_name]
        for it in rf.items:
            if it["kw"] == "impl" and it["body_open"] is not None:
                cands += [f for f in rf.fns_in(it) if f["kw"] == "fn" and f["name"] == fn_name]
        if len(cands) != 1 or cands[0]["body_open"] is None:
            raise Undecided("lost anchor: fn %s in %s (for //@lift)" % (fn_name, rel))
        it = cands[0]
        cls = find_closures(rf.toks, it["body_open"] + 1, it["end"] - 1)
        nsel = L.norm(selector).replace(" ", "")
        hits = [c for c in cls if c[4] and nsel in L.text(rf.toks, c[0], c[3]).replace(" ", "").replace("\n", "").replace("\t", "")]
        # the INNERMOST block closure containing the text
        hits = [h for h in hits if not any(o is not h and h[0] < o[0] and o[3] <= h[3] for o in hits)]
        if len(hits) != 1:
            raise Undecided("lost anchor: closure ~%s~ in %s of %s (%d candidates)" % (selector, fn_name, rel, len(hits)))
        c = hits[0]
        body = L.text(rf.toks, c[2], c[3])
        self.lifted_ranges.setdefault(rel, []).append((c[2], c[3]))     # this text is verified as a function of its own (//@watch leaves it out)
        RepoFile.virtual(vrel, signature + " " + body + "\n")
        self.rewrites.append("R28 %s:%d the body of the closure ~%s~ in %s lifted verbatim into `%s`" % (rel, rf.toks[c[0]].line, selector, fn_name, L.norm(signature)))

    def _item(self, rel, kw, name):
        rf = RepoFile.get(rel)
        it = rf.find_item(kw, name)
        if kw == "static":
            # R31: `static N: T = <literal>;` -> `exec static N: T ensures N == <literal> { <literal> }` (this Verus wants statics
            # marked exec, with their value as an ensures clause)
            txt = L.norm(L.text(rf.toks, it["kw_idx"], it["end"]))
            m = re.match(r"^static (\w+)\s*:\s*([\w:<>]+)\s*=\s*([0-9][0-9_]*)\s*;$", txt)
            if not m:
                raise Undecided("static %s in %s is not `static N: T = <integer literal>;`" % (name, rel))
            self.out.nl()
            self.out.emit("pub exec static %s: %s ensures %s == %s { %s }\n" % (m.group(1), m.group(2), m.group(1), m.group(3), m.group(3)), ("gen", "R31"))
            self.rewrites.append("R31 %s:%d `%s` -> exec static with its value as ensures" % (rel, rf.toks[it["kw_idx"]].line, txt))
            return
        derives = []
        self.item_text["%s %s" % (kw, name)] = L.norm(L.text(rf.toks, it["kw_idx"], it["end"]))
        s = strip_attrs_start(rf.toks, it, derives)
        self.out.nl()
        render(self.out, rf, s, it["end"], self._apply_rewrites(rf, s, it["end"]))
        self.out.nl()
        # R9b: #[derive(Clone, PartialEq, Eq, Copy)] on a non-generic type -> explicit impls whose
        # contracts state what the derive macro generates (structural equality / an equal copy).
        sg = _sig(rf.toks, it["kw_idx"], it["end"])
        generic = rf.toks[sg[2]].text == "<"
        if derives and not generic and kw in ("struct", "enum"):
            g = []
            if "Clone" in derives:
                g.append("impl Clone for %s { #[verifier::external_body] fn clone(&self) -> (r: %s) ensures r == *self { unimplemented!() } }" % (name, name))
            if "Copy" in derives:
                g.append("impl Copy for %s {}" % name)
            if "PartialEq" in derives:
                g.append("impl PartialEq for %s { #[verifier::external_body] fn eq(&self, other: &%s) -> (r: bool) ensures r == (*self == *other) { unimplemented!() } }" % (name, name))
            if "Eq" in derives and "PartialEq" in derives:
                g.append("impl Eq for %s {}" % name)
            if g:
                self.out.emit("\n".join(g) + "\n", ("gen", "R9b"))
                self.rewrites.append("R9b %s: #[derive(%s)] on %s -> explicit impls with assumed derive semantics (%s)" % (rel, ", ".join(derives), name, ", ".join(x for x in derives if x in ("Clone", "Copy", "PartialEq", "Eq"))))
        elif derives:
            self.rewrites.append("R9 %s: #[derive(%s)] on %s dropped" % (rel, ", ".join(derives), name))

    def _impl(self, rel, sub, inherent):
        rf = RepoFile.get(rel)
        it = rf.find_impl(sub)
        self.cur_impl = (rf, it, sub)
        a, b = it["kw_idx"], it["body_open"] + 1
        edits = self._apply_rewrites(rf, a, b)
        if inherent:
            # remove `Trait for` : tokens between the end of generics and `for`
            sg = _sig(rf.toks, a, b)
            k = 1
            if rf.toks[sg[k]].text == "<":
                depth = 0
                while True:
                    tx = rf.toks[sg[k]].text
                    if tx == "<":
                        depth += 1
                    elif tx == ">":
                        depth -= 1
                        if depth == 0:
                            break
                    k += 1
                k += 1
            f = k
            while rf.toks[sg[f]].text != "for":
                f += 1
            edits.append(Edit(sg[k], sg[f] + 1, "", ("gen", "R6")))
            self.rewrites.append("R6/R12 %s:%d `%s` emitted as inherent impl" % (rel, rf.toks[a].line, L.impl_header(rf.toks, it)))
        self.out.nl()
        render(self.out, rf, a, b, edits)
        self.out.nl()
        if not inherent:
            # associated types / consts of a trait impl are part of the header
            for sub in rf.fns_in(it):
                if sub["kw"] in ("type", "const"):
                    s0 = strip_attrs_start(rf.toks, sub)
                    render(self.out, rf, s0, sub["end"], self._apply_rewrites(rf, s0, sub["end"]))
                    self.out.nl()

    def _fn(self, args, body_lines, relname, tpl_line):
        # header args
        rel = None
        if args and (args[0].endswith(".rs") or ".rs#" in args[0]):
            rel = args[0]
            args = args[1:]
        fs = FnSpec(args[0])
        fs.tpl_line = tpl_line
        k = 1
        while k < len(args):
            if args[k] == "as":
                fs.newname = args[k + 1]
            elif args[k] == "ret":
                fs.ret = args[k + 1]
            elif args[k] == "props":
                fs.props = args[k + 1].split(",")
            else:
                raise Undecided("bad //@fn argument %s at %s:%d" % (args[k], relname, tpl_line))
            k += 2
        # sub-directives
        cur = None
        for off, ln in enumerate(body_lines):
            s = ln.strip()
            lno = tpl_line + 1 + off
            if s.startswith("//@"):
                d = s[3:].split(None, 2)
                c = d[0]
                if c == "spec":
                    cur = fs.spec
                elif c == "entry":
                    cur = fs.entry
                elif c == "exit":
                    cur = fs.exit
                elif c == "loop":
                    cur = fs.loops.setdefault(int(d[1]), [])
                elif c == "loopexit":
                    cur = fs.loopexit.setdefault(int(d[1]), [])
                elif c == "loopentry":
                    cur = fs.loopentry.setdefault(int(d[1]), [])
                elif c == "closure":
                    rest = s[3:].split(None, 1)[1]
                    m = re.match(r"~(.+?)~(?:\s+after\s+~(.+?)~)?\s+(\|.*)$", rest)
                    if m:
                        # content-addressed: the closure whose own text contains the first pattern (and whose
                        # preceding context contains the `after` pattern) -- robust to closures being added or removed
                        fs.closures_by_text.append((m.group(1), m.group(2), m.group(3), lno))
                    else:
                        fs.closures[int(d[1])] = (d[2], lno)
                    cur = None
                elif c in ("before", "before?"):
                    cur = []
                    fs.before.append((int(d[1]), d[2] + (" ?optional" if c.endswith("?") else ""), cur))
                elif c in ("after", "after?"):
                    cur = []
                    fs.after.append((int(d[1]), d[2] + (" ?optional" if c.endswith("?") else ""), cur))
                elif c == "iterator":
                    fs.iterators.add(d[1])
                    cur = None
                elif c == "guards":
                    fs.guards.add(d[1])
                    cur = None
                elif c == "tasks":
                    fs.tasks.update(s[3:].split()[1:])
                    cur = None
                elif c == "blocktail":
                    cur = []
                    fs.blocktail.append((int(d[1]), d[2], cur))
                elif c == "no":
                    fs.no.add(d[1])
                elif c == "bind":
                    m = re.match(r"(\w+)\s+~(.+)~\s*$", s[3:].split(None, 1)[1])
                    if not m:
                        raise Undecided("malformed //@bind at %s:%d" % (relname, lno))
                    fs.binds.append((m.group(1), m.group(2)))
                    cur = None
                elif c == "assume":
                    fs.assume = True
                    cur = None
                elif c == "atexit":
                    cur = fs.atexit
                elif c == "wraptail":
                    fs.wraptail = d[1]
                    cur = None
                else:
                    raise Undecided("unknown fn sub-directive %s at %s:%d" % (c, relname, lno))
            else:
                if cur is None:
                    if s:
                        raise Undecided("stray text in //@fn at %s:%d" % (relname, lno))
                    continue
                cur.append((ln, lno))
        self._emit_fn(rel, fs, relname)

    def _emit_fn(self, rel, fs, relname):
        if rel is None:
            if not self.cur_impl:
                raise Undecided("//@fn %s outside //@impl" % fs.name)
            rf, impl_it, sub = self.cur_impl
            cands = [f for f in rf.fns_in(impl_it) if f["kw"] == "fn" and f["name"] == fs.name]
            qual = "%s::%s" % (sub, fs.name)
        else:
            rf = RepoFile.get(rel)
            cands = [f for f in rf.items if f["kw"] == "fn" and f["name"] == fs.name]
            qual = fs.name
        if len(cands) != 1:
            raise Undecided("lost anchor: fn %s in %s" % (qual, rf.rel))
        it = cands[0]
        toks = rf.toks
        if it["body_open"] is None:
            raise Undecided("fn %s has no body" % qual)
        start = strip_attrs_start(toks, it)
        bo, be = it["body_open"], it["end"] - 1  # `{` and `}` indices
        R23_ITERATORS.clear()
        R23_ITERATORS.update(fs.iterators)
        R29_GUARDS.clear()
        R29_GUARDS.update(fs.guards)
        R30_TASKS.clear()
        R30_TASKS.update(fs.tasks)
        try:
            edits = self._apply_rewrites(rf, start, it["end"], fs.no)
        finally:
            R23_ITERATORS.clear()
            R29_GUARDS.clear()
            R30_TASKS.clear()

        # R17: `mut self` receiver -> `self` + `let mut __self = self;` with the body's `self` renamed
        sgh = _sig(toks, it["kw_idx"], bo)
        r17 = False
        for k, i in enumerate(sgh):
            if toks[i].text == "mut" and toks[sgh[k + 1]].text == "self" and toks[sgh[k - 1]].text == "(":
                edits.append(Edit(i, sgh[k + 1], "", ("gen", "R17")))
                r17 = True
                self.rewrites.append("R17 %s:%d `mut self` receiver of %s -> `self` + `let mut __self = self;`" % (rf.rel, toks[i].line, qual))
        if r17 and not fs.assume:
            for i in _sig(toks, bo + 1, be):
                if toks[i].kind == "ident" and toks[i].text == "self":
                    edits.append(Edit(i, i + 1, "__self", ("gen", "R17")))

        # R11: pattern in parameter position `&(a, b): T` -> `__p: T` + `let (a, b) = *__p;`
        r11 = None
        for k, i in enumerate(sgh):
            if toks[i].text == "&" and toks[sgh[k + 1]].text == "(" and toks[sgh[k - 1]].text in (",", "("):
                close = L.match_close(toks, sgh[k + 1])
                nxt = [j for j in sgh if j > close][0]
                if toks[nxt].text == ":":
                    pat = L.text(toks, sgh[k + 1], close + 1)
                    edits.append(Edit(i, close + 1, "__p", ("gen", "R11")))
                    r11 = "let %s = *__p;\n" % pat
                    self.rewrites.append("R11 %s:%d pattern parameter `&%s` of %s -> `__p` + `%s`" % (rf.rel, toks[i].line, pat, qual, r11.strip()))

        def tpl_text(lines):
            return "".join(l + "\n" for l, _ in lines)

        def tpl_origin(lines):
            return ("tpl", relname, lines[0][1]) if lines else ("gen", "empty")

        # rename
        if fs.newname:
            sg = _sig(toks, it["kw_idx"], bo)
            edits.append(Edit(sg[1], sg[1] + 1, fs.newname, ("gen", "rename")))
        # return value name
        sgs = _sig(toks, it["kw_idx"], bo)
        arrow = None
        depth = 0
        for k, i in enumerate(sgs):
            tx = toks[i].text
            if tx in "([":
                depth += 1
            elif tx in ")]":
                depth -= 1
            elif depth == 0 and tx == "-" and toks[sgs[k + 1]].text == ">":
                arrow = k
                break
        where_idx = None
        depth = 0
        for k, i in enumerate(sgs):
            tx = toks[i].text
            if tx in "([<":
                depth += 1
            elif tx in ")]":
                depth -= 1
            elif tx == ">" and toks[sgs[k - 1]].text != "-":
                depth -= 1
            elif depth == 0 and tx == "where":
                where_idx = k
        # the return type as written (used to annotate `let __r: T = ..` at exits; only when no rewrite touches it)
        ret_ty = None
        if arrow is not None:
            tend0 = sgs[where_idx - 1] if where_idx is not None else sgs[-1]
            rt = L.norm(L.text(toks, sgs[arrow + 2], tend0 + 1))
            if not re.search(r"\b(dyn|impl)\b|Self|'", rt):
                ret_ty = rt
        if fs.ret:
            if arrow is None:
                raise Undecided("fn %s has no return type to name" % qual)
            tstart = sgs[arrow + 2]
            tend_sig = sgs[where_idx - 1] if where_idx is not None else sgs[-1]
            edits.append(Edit(tstart, tstart, "(%s: " % fs.ret, ("gen", "ret")))
            edits.append(Edit(tend_sig + 1, tend_sig + 1, ")", ("gen", "ret")))
        # spec between signature and body
        if fs.spec:
            edits.append(Edit(bo, bo, "\n" + tpl_text(fs.spec), ("tpl", relname, fs.spec[0][1] - 1)))
        # entry / exit
        entry_txt = tpl_text(fs.entry)
        if self.vacuity:
            entry_txt = "proof { assert(false); } // VACUITY-PROBE\n" + entry_txt
        if r17:
            entry_txt = "let mut __self = self;\n" + entry_txt
        if r11 and not fs.assume:
            entry_txt = r11 + entry_txt
        if entry_txt:
            edits.append(Edit(bo + 1, bo + 1, "\n" + entry_txt, ("tpl", relname, (fs.entry[0][1] - 1) if fs.entry else fs.tpl_line)))
        if fs.exit:
            edits.append(Edit(be, be, "\n" + tpl_text(fs.exit), ("tpl", relname, fs.exit[0][1] - 1)))
        # loops
        loops = find_loops(toks, bo + 1, be)
        for k, lines in fs.loops.items():
            if k < 1 or k > len(loops):
                if len(loops) == 0:
                    continue    # the loop is gone altogether: its invariants go with it, the function's ensures still stand
                raise Undecided("lost anchor: loop %d of %s (function has %d loops)" % (k, qual, len(loops)))
            lb = loops[k - 1][1]
            edits.append(Edit(lb, lb, "\n" + tpl_text(lines), ("tpl", relname, lines[0][1] - 1)))
        for k, lines in fs.loopentry.items():
            if k < 1 or k > len(loops):
                if len(loops) == 0:
                    continue
                raise Undecided("lost anchor: loop %d of %s" % (k, qual))
            lb = loops[k - 1][1]
            edits.append(Edit(lb + 1, lb + 1, "\n" + tpl_text(lines), ("tpl", relname, lines[0][1] - 1)))
        for k, lines in fs.loopexit.items():
            if k < 1 or k > len(loops):
                if len(loops) == 0:
                    continue
                raise Undecided("lost anchor: loop %d of %s" % (k, qual))
            lc = L.match_close(toks, loops[k - 1][1])
            edits.append(Edit(lc + 1, lc + 1, "\n" + tpl_text(lines), ("tpl", relname, lines[0][1] - 1), order=-2))
        if fs.loops and len(loops) != max(fs.loops):
            # contracts were written for a different loop structure
            if loops and len(loops) != len(fs.loops) and len(loops) < max(fs.loops):
                raise Undecided("loop structure of %s changed" % qual)
        # closures
        cls = find_closures(toks, bo + 1, be)
        sgb = _sig(toks, bo + 1, be)
        for own, ctx, hdr, lno in fs.closures_by_text:
            nown, nctx = L.norm(own).replace(" ", ""), (L.norm(ctx).replace(" ", "") if ctx else None)
            hits = []
            for ci, c in enumerate(cls):
                otext = L.text(toks, c[0], c[3]).replace(" ", "").replace("\n", "").replace("\t", "")
                # a selector ending in `$` must be the END of the closure's text (so that `h.value.as_str()$` does not pick
                # a closure that goes on: `h.value.as_str().to_ascii_lowercase()`)
                if nown.endswith("$"):
                    if not otext.endswith(nown[:-1]):
                        continue
                elif nown not in otext:
                    continue
                if nctx is not None:
                    before = [j for j in sgb if j < c[0]][-16:]
                    btext = "".join(toks[j].text for j in before)
                    if nctx not in btext:
                        continue
                hits.append(ci + 1)
            if len(hits) > 1:
                # nested closures: the text belongs to the innermost closure that contains it
                hits = [h for h in hits if not any(o != h and cls[h - 1][0] < cls[o - 1][0] and cls[o - 1][3] <= cls[h - 1][3] for o in hits)]
            if len(hits) == 1:
                fs.closures[hits[0]] = (hdr, lno)
            elif len(hits) > 1:
                raise Undecided("closure selector ~%s~ is ambiguous in %s (%d matches)" % (own, qual, len(hits)))
            else:
                # no match: the closure this contract was written for is gone or reads differently.  The function is
                # still verified; if it verifies, fine -- if an obligation fails, that may be for want of this contract:
                # such a failure is undecided, never an alarm
                self.lost_closures.setdefault(qual, []).append(own)
        # closures that are left WITHOUT a contract and compute something (`|..| ()` is trivial): Verus knows nothing about
        # what they return, so an obligation of this function that fails may fail for that reason alone -- whether the
        # closure is one whose contract found no match any more, or one that a change has newly introduced
        # R35: a closure without a template contract whose body is a pure boolean expression over its parameters and
        # captured variables (comparison / logical operators, field projections, `*`, literals -- no calls) gets the contract
        # that its body states: `|p| e`  ->  `|p| -> (__r: bool) ensures __r == (e) { e }`
        for ci, c in enumerate(cls, 1):
            if ci in fs.closures or c[4]:
                continue
            body_toks = [toks[x] for x in range(c[2], c[3]) if toks[x].kind not in ("ws", "comment")]
            btxt = "".join(t.text for t in body_toks)
            pure = body_toks and all(t.kind in ("ident", "num", "char") or (t.kind == "punct" and t.text in "=!<>&|*.+-") for t in body_toks) \
                and not any(t.kind == "ident" and t.text in KEYWORDS for t in body_toks) \
                and re.search(r"==|!=|<=|>=|<|>", btxt) and "->" not in btxt and "=>" not in btxt \
                and not re.search(r"[A-Za-z_0-9]\(", btxt)
            if pure:
                bars = L.text(toks, c[0], c[1] + 1)
                fs.closures[ci] = ("%s -> (__r: bool) ensures __r == (%s)" % (bars, L.norm(L.text(toks, c[2], c[3]))), fs.tpl_line)
                self.rewrites.append("R35 %s:%d closure `%s %s` gets the contract its body states" % (rf.rel, toks[c[0]].line, L.norm(bars), L.norm(L.text(toks, c[2], c[3]))[:50]))
        bare = [ci for ci, c in enumerate(cls, 1) if ci not in fs.closures
                and L.norm(L.text(toks, c[2], c[3])).replace(" ", "") not in ("()", "{}", "{()}")]
        # loops that carry no template invariant: after such a loop Verus knows nothing about what it modified
        self.bare_loops[qual] = sum(1 for li in range(1, len(loops) + 1) if li not in fs.loops)
        sgq = _sig(toks, bo + 1, be)
        # names of the functions / methods / macros the body calls (lower-case identifiers in call position): a name that is new with
        # respect to the reference tree and has no contract in this unit is a callee of unknown strength (rule vii of ./check)
        self.callees[qual] = sorted({toks[j].text + ("!" if toks[sgq[x + 1]].text == "!" else "") for x, j in enumerate(sgq[:-1])
                                     if toks[j].kind == "ident" and toks[j].text not in KEYWORDS and not toks[j].text[0].isupper()
                                     and (toks[sgq[x + 1]].text == "(" or (toks[sgq[x + 1]].text == "!" and x + 2 < len(sgq) and toks[sgq[x + 2]].text in ("(", "[", "{")
                                                                            and toks[sgq[x + 1]].pos == toks[j].pos + len(toks[j].text))
                                          or (toks[sgq[x + 1]].text == ":" and x + 3 < len(sgq) and toks[sgq[x + 2]].text == ":" and toks[sgq[x + 3]].text == "<"))})
        self.strlit_patterns[qual] = sum(1 for x, j in enumerate(sgq[:-1]) if toks[j].kind == "str"
                                         and (toks[sgq[x + 1]].text == "|" or (toks[sgq[x + 1]].text == "=" and x + 2 < len(sgq) and toks[sgq[x + 2]].text == ">")))
        if not bare:
            self.lost_closures.pop(qual, None)
        elif not fs.assume:
            self.bare_closures[qual] = [L.norm(L.text(toks, cls[ci - 1][0], cls[ci - 1][3]))[:60] for ci in bare]
        for k, (hdr, lno) in fs.closures.items():
            if k < 1 or k > len(cls):
                raise Undecided("lost anchor: closure %d of %s (function has %d closures)" % (k, qual, len(cls)))
            b1, b2, bs, bend, is_block = cls[k - 1]
            # a contract for the closure supersedes cosmetic rewrites of its header (R14)
            edits = [e for e in edits if not (e.a < b2 + 1 and b1 < max(e.b, e.a + 1))]
            edits.append(Edit(b1, b2 + 1, hdr + " ", ("tpl", relname, lno)))
            if not is_block:
                edits.append(Edit(bs, bs, "{ ", ("gen", "closure-brace")))
                edits.append(Edit(bend, bend, " }", ("gen", "closure-brace")))
        # before / after anchors
        sgb = _sig(toks, bo + 1, be)
        if fs.binds:
            # //@bind: a name the code chose for a pattern variable is looked up in the function's own text, so that the
            # attached lines follow a renaming; a block that needs a name which is not found is dropped like a lost
            # optional anchor (never an alarm)
            body_txt_n = L.norm(L.text(toks, bo, be + 1))
            bound = {}
            for bname, brx in fs.binds:
                bm = re.search(brx, body_txt_n)
                if bm:
                    bound[bname] = bm.group(1)
            def _subst(lines_):
                out_ = []
                for t_, l_ in lines_:
                    for bname, _ in fs.binds:
                        if "$" + bname in t_:
                            if bname not in bound:
                                return None
                            t_ = t_.replace("$" + bname, bound[bname])
                    out_.append((t_, l_))
                return out_
            for lst_name in ("before", "after"):
                new_lst = []
                for k_, tok_, lines_ in getattr(fs, lst_name):
                    sub = _subst(lines_)
                    if sub is None:
                        self.lost_optional.setdefault(qual, []).append("%s %d %s (unbound name)" % (lst_name, k_, tok_))
                        self.lost_ghost.setdefault(qual, set()).update(_ghost_names(lines_))
                        continue
                    new_lst.append((k_, tok_, sub))
                setattr(fs, lst_name, new_lst)
        for k, tok, lines in fs.before:
            optional = tok.endswith(" ?optional")
            if optional:
                tok = tok[:-len(" ?optional")]
            after_pat = None
            if " @after " in tok:
                tok, after_pat = tok.split(" @after ", 1)
            words = [t.text for t in L.tokenize(tok) if t.kind != "ws"]
            occ = [x for x in range(len(sgb)) if _seq_at_anchor(toks, sgb, x, words)]
            if after_pat is not None:
                # k-th occurrence of <token> AFTER the first occurrence of the anchor pattern
                aw = [t.text for t in L.tokenize(after_pat) if t.kind != "ws"]
                ao = [x for x in range(len(sgb)) if _seq_at_anchor(toks, sgb, x, aw)]
                occ = [x for x in occ if ao and x > ao[0]] if ao else []
            if optional and (k < 1 or k > len(occ)):
                # the guarded statement is gone: the function's ensures still stand; obligations that speak about ghost
                # variables maintained here cannot be decided any more (never an alarm)
                self.lost_ghost.setdefault(qual, set()).update(_ghost_names(lines))
                self.lost_optional.setdefault(qual, []).append("before? %d %s" % (k, tok))
                continue
            if k < 1 or k > len(occ):
                # a REQUIRED anchor is gone: its lines cannot be attached.  The rest of the function (and of the unit) is still
                # verified; this function can no longer come out as proved, and a failure in it is pending (a replay decides)
                self.lost_required.setdefault(qual, []).append("before %d %s" % (k, tok))
                self.lost_ghost.setdefault(qual, set()).update(_ghost_names(lines))
                continue
            x = occ[k - 1]
            i = sgb[x]
            prev = toks[sgb[x - 1]].text if x > 0 else "{"
            prev2 = toks[sgb[x - 2]].text if x > 1 else ""
            ax = x if (prev == ">" and prev2 == "=") else None
            if ax is None:
                # is the anchor inside a brace-less match arm expression (`pat => <..anchor..>,`)?  walk back at depth 0
                depth, y = 0, x
                while y > 0:
                    pt = toks[sgb[y - 1]]
                    if pt.kind == "punct":
                        if pt.text in ")]}":
                            depth += 1
                        elif pt.text in "([{":
                            if depth == 0:
                                break
                            depth -= 1
                        elif pt.text in (";", ",") and depth == 0:
                            break
                        elif pt.text == ">" and depth == 0 and y > 1 and toks[sgb[y - 2]].text == "=":
                            ax = y
                            break
                    y -= 1
            if ax is not None:
                # match arm expression: brace it
                x = ax
                i = sgb[x]
                depth = 0
                e = None
                for j in sgb[x:]:
                    tx = toks[j].text
                    if toks[j].kind == "punct":
                        if tx in "([{":
                            depth += 1
                        elif tx in ")]}":
                            if depth == 0:
                                e = j
                                break
                            depth -= 1
                        elif tx == "," and depth == 0:
                            e = j
                            break
                if e is None:
                    raise Undecided("match arm end not found in %s" % qual)
                edits.append(Edit(i, i, "{\n" + tpl_text(lines), ("tpl", relname, lines[0][1] - 1)))
                ee = e
                while toks[ee - 1].kind in ("ws", "comment"):
                    ee -= 1
                edits.append(Edit(ee, ee, " }", ("gen", "arm-brace")))
            else:
                # statement-level insertion: go back to the start of the statement that contains the anchor
                # (after the previous `;`, `{` or `}` at the same nesting depth), so that an anchor in the middle
                # of `let r = <anchor>...;` still yields well-formed code
                depth = 0
                y = x
                while y > 0:
                    pt = toks[sgb[y - 1]]
                    if pt.kind == "punct":
                        if pt.text in ")]":
                            depth += 1
                        elif pt.text in "([":
                            if depth == 0:
                                break
                            depth -= 1
                        elif pt.text == "}":
                            if depth == 0:
                                break
                            depth += 1
                        elif pt.text == "{":
                            if depth == 0:
                                break
                            depth -= 1
                        elif pt.text == ";" and depth == 0:
                            break
                        elif pt.text == "," and depth == 0:
                            break
                    y -= 1
                if y > 0 and toks[sgb[y - 1]].text in ("(", "[", ","):
                    y = x   # inside an argument list / array: no statement position, keep the anchor itself
                if y > 1 and toks[sgb[y - 1]].text == ">" and toks[sgb[y - 2]].text == "=":
                    y = x
                ins = sgb[y]
                # must come before any wrapper a rewrite opens at the same token
                edits.append(Edit(ins, ins, "\n" + tpl_text(lines), ("tpl", relname, lines[0][1] - 1), order=-3))
        for k, tok, lines in fs.after:
            optional = tok.endswith(" ?optional")
            if optional:
                tok = tok[:-len(" ?optional")]
            words = [t.text for t in L.tokenize(tok) if t.kind != "ws"]
            occ = [x for x in range(len(sgb)) if _seq_at_anchor(toks, sgb, x, words)]
            if optional and (k < 1 or k > len(occ)):
                self.lost_ghost.setdefault(qual, set()).update(_ghost_names(lines))
                self.lost_optional.setdefault(qual, []).append("after? %d %s" % (k, tok))
                continue
            if k < 1 or k > len(occ):
                self.lost_required.setdefault(qual, []).append("after %d %s" % (k, tok))
                self.lost_ghost.setdefault(qual, set()).update(_ghost_names(lines))
                continue
            x = occ[k - 1]
            depth = 0
            e = None
            for j in sgb[x:]:
                tx = toks[j].text
                if toks[j].kind == "punct":
                    if tx in "([{":
                        depth += 1
                    elif tx in ")]}":
                        depth -= 1
                    elif tx == ";" and depth <= 0:
                        e = j
                        break
            if e is None:
                raise Undecided("statement end not found after `%s` in %s" % (tok, qual))
            edits.append(Edit(e + 1, e + 1, "\n" + tpl_text(lines), ("tpl", relname, lines[0][1] - 1)))

        for k, tok, lines in fs.blocktail:
            # text in front of the tail expression (or the closing brace) of the block that encloses the anchor statement:
            # the point where the locals of that block are about to be dropped
            words = [t.text for t in L.tokenize(tok) if t.kind != "ws"]
            occ = [x for x in range(len(sgb)) if _seq_at_anchor(toks, sgb, x, words)]
            if k < 1 or k > len(occ):
                raise Undecided("lost anchor: occurrence %d of `%s` in %s (%d found)" % (k, tok, qual, len(occ)))
            x = occ[k - 1]
            depth, y = 0, x
            while y > 0:
                tx = toks[sgb[y - 1]].text
                if tx in ")]}":
                    depth += 1
                elif tx in "([{":
                    if depth == 0:
                        break
                    depth -= 1
                y -= 1
            if y == 0 or toks[sgb[y - 1]].text != "{":
                raise Undecided("no enclosing block for `%s` in %s" % (tok, qual))
            b_open = sgb[y - 1]
            b_close = L.match_close(toks, b_open)
            inner = [j for j in sgb if b_open < j < b_close]
            depth, last = 0, None
            for j in inner:
                tx = toks[j].text
                if toks[j].kind == "punct":
                    if tx in "([{":
                        depth += 1
                    elif tx in ")]}":
                        depth -= 1
                        if depth == 0 and tx == "}":
                            last = j
                    elif tx == ";" and depth == 0:
                        last = j
            after_last = [j for j in inner if last is None or j > last]
            ins = after_last[0] if after_last else b_close
            edits.append(Edit(ins, ins, "\n" + tpl_text(lines), ("tpl", relname, lines[0][1] - 1), order=-3))

        if fs.wraptail:
            # R16: wrap the tail expression of the body in a same-body wrapper call
            sgt = _sig(toks, bo + 1, be)
            depth = 0
            last = None
            for x, i in enumerate(sgt):
                tx = toks[i].text
                if toks[i].kind == "punct":
                    if tx in "([{":
                        depth += 1
                    elif tx in ")]}":
                        depth -= 1
                        if depth == 0 and tx == "}":
                            last = x
                    elif tx == ";" and depth == 0:
                        last = x
            ts = sgt[last + 1] if last is not None else sgt[0]
            if last is not None and last + 1 >= len(sgt):
                raise Undecided("%s has no tail expression to wrap" % qual)
            te = be
            while toks[te - 1].kind in ("ws", "comment"):
                te -= 1
            edits.append(Edit(ts, ts, fs.wraptail + "(", ("gen", "R16")))
            edits.append(Edit(te, te, ")", ("gen", "R16")))
            self.rewrites.append("R16 %s:%d tail expression of %s wrapped in %s(..)" % (rf.rel, toks[ts].line, qual, fs.wraptail))
        if fs.atexit and not fs.assume:
            body_txt = "".join(l + "\n" for l, _ in fs.atexit)
            org = ("tpl", relname, fs.atexit[0][1] - 1)
            sgt = _sig(toks, bo + 1, be)
            # closures inside the body: their `return`s are not exits of the function
            cl_ranges = [(c[2], c[3]) for c in find_closures(toks, bo + 1, be)]
            def in_closure(i):
                return any(a0 <= i < b0 for a0, b0 in cl_ranges)
            # 1. every `return X`
            for x, i in enumerate(sgt):
                if toks[i].kind == "ident" and toks[i].text == "return" and not in_closure(i):
                    depth = 0
                    e = None
                    for j in sgt[x + 1:]:
                        tx = toks[j].text
                        if toks[j].kind == "punct":
                            if tx in "([{":
                                depth += 1
                            elif tx in ")]}":
                                if depth == 0:
                                    e = j
                                    break
                                depth -= 1
                            elif tx in ";," and depth == 0:
                                e = j
                                break
                    if e is None:
                        raise Undecided("return expression end not found in %s" % qual)
                    ee = e
                    while toks[ee - 1].kind in ("ws", "comment"):
                        ee -= 1
                    if ee <= sgt[x] + 1 or all(toks[t].kind in ("ws", "comment") for t in range(i + 1, ee)):
                        # `return;`
                        edits.append(Edit(i, i, "{ " + body_txt.replace("$r", "()"), org, order=-2))
                        edits.append(Edit(ee, ee, "; }", ("gen", "atexit")))
                    else:
                        edits.append(Edit(i, i + 1, "{ let __r%s = " % (": " + ret_ty if ret_ty else ""), org, order=-2))
                        edits.append(Edit(ee, ee, ";\n" + body_txt.replace("$r", "__r") + "return __r; }", org))
            # 2. the tail expression
            depth = 0
            last = None
            for x, i in enumerate(sgt):
                tx = toks[i].text
                if toks[i].kind == "punct":
                    if tx in "([{":
                        depth += 1
                    elif tx in ")]}":
                        depth -= 1
                        if depth == 0 and tx == "}":
                            # a block ending a statement (if/match/loop/while without `;`) -- unless it is the tail itself
                            last = x
                    elif tx == ";" and depth == 0:
                        last = x
            has_tail = not (last is not None and last + 1 >= len(sgt))
            # a trailing block expression (match/if as tail) ends with `}` as the last token: treat it as the tail
            if not has_tail and toks[sgt[-1]].text == "}" and arrow is not None:
                # find the start of that trailing block statement: after the previous `;` / `}` at depth 0
                depth = 0
                prev = None
                for x, i in enumerate(sgt[:-1]):
                    tx = toks[i].text
                    if toks[i].kind == "punct":
                        if tx in "([{":
                            depth += 1
                        elif tx in ")]}":
                            depth -= 1
                            if depth == 0 and tx == "}" :
                                # only counts if what follows starts a new statement; approximated by: next token is not `else`
                                if x + 1 < len(sgt) and toks[sgt[x + 1]].text != "else":
                                    prev = x
                        elif tx == ";" and depth == 0:
                            prev = x
                # prev may be the closing brace of the trailing block itself: recompute excluding the last token
                cands = [p for p in ([prev] if prev is not None else []) if p < len(sgt) - 1]
                ts = sgt[cands[-1] + 1] if cands else sgt[0]
                has_tail = True
                tail_start = ts
            elif has_tail:
                tail_start = sgt[last + 1] if last is not None else sgt[0]
            if has_tail and toks[tail_start].text == "loop":
                has_tail = False      # a bare `loop` as tail never falls through: its exits are `return`s
                arrow_unit = False
            if has_tail:
                te = be
                while toks[te - 1].kind in ("ws", "comment"):
                    te -= 1
                edits.append(Edit(tail_start, tail_start, "{ let __r%s = " % (": " + ret_ty if ret_ty else ""), org, order=-2))
                edits.append(Edit(te, te, ";\n" + body_txt.replace("$r", "__r") + "__r }", org))
            elif arrow is None:
                # unit function falling off the end
                edits.append(Edit(be, be, "\n" + body_txt.replace("$r", "()"), org))
        if fs.assume:
            # contract-only callee: the REAL signature, the body replaced; listed as trusted
            edits = [e for e in edits if e.b <= bo]
            edits.append(Edit(bo, be + 1, "{ unimplemented!() }", ("gen", "assume")))
            self.assumed.append("%s (%s:%d): body not verified in this unit, contract assumed" % (qual, rf.rel, toks[it["kw_idx"]].line))
            self.trusted_text["%s: %s" % (rf.rel, qual)] = _code_text(toks, start, it["end"])
            self.out.nl()
            self.out.emit("#[verifier::external_body]\n", ("gen", "assume"))
            render(self.out, rf, start, it["end"], edits)
            self.out.nl()
            return
        self.out.nl()
        # termination of exec code is not among the properties: a loop without a `decreases` clause (e.g. one added by
        # a later change) must not make the unit undecidable; loops that do carry a decreases clause are still checked
        self.out.emit("#[verifier::exec_allows_no_decreases_clause]\n", ("gen", "attr"))
        # loops are verified in the context of their function: what was established before a loop (a local introduced by
        # a refactoring) and what holds at a `break` (`while c {..}` rewritten as `loop { if !c { break } .. }`) is
        # available without the invariant having to name it -- the invariants talk about the abstraction only
        self.out.emit("#[verifier::loop_isolation(false)]\n", ("gen", "attr"))
        first = len(self.out.lines)
        render(self.out, rf, start, it["end"], edits)
        self.out.nl()
        last = len(self.out.lines) - 1
        # clause inventory (counted by the splicer)
        clauses = count_clauses(fs)
        self.fns.append(dict(name=fs.newname or fs.name, qual=qual, file=rf.rel, repo_line=toks[it["kw_idx"]].line,
                             out_first=first, out_last=last, props=fs.props, clauses=clauses,
                             body_text=L.norm(L.text(toks, start, it["end"]))))


CLAUSE_KW = re.compile(r"^\s*(requires|ensures|invariant|invariant_except_break|decreases|recommends)\b")


def count_clauses(fs):
    """explicit contract clauses of one function: each top-level comma-separated clause of
    requires/ensures/invariant/decreases, each assert in spliced proof blocks, each closure ensures."""
    n = dict(requires=0, ensures=0, invariant=0, decreases=0, asserts=0, closure=0)
    def scan(lines):
        mode = None
        depth = 0
        for l, _ in lines:
            code = l.split("//")[0]
            m = CLAUSE_KW.match(code)
            if m:
                mode = m.group(1)
                if mode == "invariant_except_break":
                    mode = "invariant"
                code = code[m.end():]
            if "assert(" in code or "assert (" in code or "assert forall" in code:
                n["asserts"] += code.count("assert")
            if mode in n:
                for ch in code:
                    if ch in "([{":
                        depth += 1
                    elif ch in ")]}":
                        depth -= 1
                    elif ch == "," and depth == 0:
                        n[mode] += 1
    scan(fs.spec)
    for v in fs.loops.values():
        scan(v)
    scan(fs.entry); scan(fs.exit)
    for _, _, v in fs.before:
        scan(v)
    for _, _, v in fs.after:
        scan(v)
    for v in fs.loopentry.values():
        scan(v)
    for v in fs.loopexit.values():
        scan(v)
    for _, _, v in fs.blocktail:
        scan(v)
    for hdr, _ in fs.closures.values():
        if "ensures" in hdr:
            n["closure"] += 1
    return n


TRUST_PAT = re.compile(r"\b(assume_specification|external_body|external_type_specification|external_trait_specification|axiom fn|assume\(|admit\(|uninterp spec fn)\b|#\[verifier::external\]")


def scan_trusted(text):
    """mechanical scan of the generated unit for everything that is assumed rather than proved"""
    res = []
    lines = text.split("\n")
    for i, l in enumerate(lines):
        if l.strip().startswith("//"):
            continue
        if TRUST_PAT.search(l):
            s = L.norm(l)
            if "external_type_specification" in s or s.startswith("#[verifier::external_body]") or s.startswith("#[verifier::external_trait_specification]"):
                # take the declaration on the following non-attribute line
                j = i + 1
                while j < len(lines) and lines[j].strip().startswith("#["):
                    j += 1
                if j < len(lines):
                    s = s + " " + L.norm(lines[j])
            res.append(s[:200])
    return res


if __name__ == "__main__":
    u = Unit(sys.argv[1])
    try:
        t = u.build(vacuity="--vacuity" in sys.argv)
    except Undecided as e:
        print("UNDECIDED:", e)
        sys.exit(2)
    sys.stdout.write(t)
    sys.stderr.write(json.dumps(dict(fns=[{k: v for k, v in f.items() if k != "body_text"} for f in u.fns], rewrites=u.rewrites), indent=1))
