"""Thorough-tier extras: (b) stability re-run with another rlimit/seed, (c) mutant guard (iii)."""
import os, sys, json, shutil, tempfile, subprocess, time
import concurrent.futures as cf
HERE = os.path.dirname(os.path.dirname(os.path.abspath(__file__)))
sys.path.insert(0, os.path.join(HERE, "tools"))
import mutants as M


def stability(units, seed, files=None):
    """three more Verus runs of each (already generated) unit file with a different rlimit and three random seeds"""
    out = {}
    for u in units:
        path = (files or {}).get(u) or os.path.join(HERE, ".work", u + ".rs")
        if not os.path.exists(path):
            continue
        runs = []
        for sd in (seed % 1000 + 1, seed % 1000 + 101, seed % 1000 + 201):
            t0 = time.time()
            p = subprocess.run(["verus", os.path.basename(path), "--output-json", "--rlimit", "30", "--smt-option", "smt.random_seed=%d" % sd,
                                "--num-threads", "8"], cwd=os.path.dirname(path), capture_output=True, text=True, timeout=1800)
            try:
                js = json.loads(p.stdout[p.stdout.find("{"):])
                vr = js["verification-results"]
                runs.append(dict(verified=vr["verified"], errors=vr["errors"], seconds=round(time.time() - t0, 1), seed=sd, rlimit=30))
            except Exception:
                runs.append(dict(error="no result", seed=sd))
        out[u] = dict(verified=min((r.get("verified", 0) for r in runs), default=0), errors=max((r.get("errors", 1) for r in runs), default=1),
                      seconds=round(sum(r.get("seconds", 0) for r in runs), 1), seeds=[r["seed"] for r in runs], rlimit=30, runs=runs)
    return out


def assumption_audit():
    tgt = os.path.join(HERE, ".work", "replay-target")
    env = dict(os.environ, CARGO_TARGET_DIR=tgt, CARGO_NET_OFFLINE="true")
    b = subprocess.run(["cargo", "build", "--offline", "--release", "-q", "--bin", "audit_std_specs"], cwd=os.path.join(HERE, "replay"), env=env, capture_output=True, text=True)
    if b.returncode != 0:
        return dict(ok=False, output="audit program does not build: " + b.stderr[-400:])
    r = subprocess.run([os.path.join(tgt, "release", "audit_std_specs")], capture_output=True, text=True, timeout=600)
    return dict(ok=r.returncode == 0 and r.stdout.startswith("AUDIT-OK"), output=r.stdout.strip()[:800],
                what="assumed std contracts of prelude/split.rs, trim.rs, str.rs compared with the installed std on every string of length <= 5 over 13 characters; the f32 ordering model, sort_by and retain contracts of prelude/float.rs compared on all pairs of 1540 floats and lists up to 199 elements (a test of assumptions, not a proof)")


def _run_mutant(u, k, f, old, new):
    tmp = tempfile.mkdtemp(prefix="verif-mut-")
    try:
        repo = os.path.join(tmp, "repo")
        subprocess.run(["rsync", "-a", "--exclude", "target", "--exclude", ".git", "/repo/", repo + "/"], check=True)
        p = os.path.join(repo, f)
        s = open(p).read()
        if s.count(old) != 1:
            return dict(unit=u, k=k, file=f, status="not-applicable", note="pattern occurs %d times" % s.count(old))
        open(p, "w").write(s.replace(old, new))
        env = dict(os.environ, VERIF_REPO=repo, VERIF_WORK=os.path.join(tmp, "work"), VERIF_THREADS="2")
        r = subprocess.run([sys.executable, os.path.join(HERE, "tools", "runit.py"), u], env=env, capture_output=True, text=True, timeout=1200)
        first = r.stdout.split("\n")[0]
        st = "killed" if "status=failed" in first else ("undecided" if "status=undecided" in first else "SURVIVED")
        fails = [l[5:] for l in r.stdout.split("\n") if l.startswith("FAIL ")][:2]
        return dict(unit=u, k=k, file=f, change="%s -> %s" % (old.strip()[:60], new.strip()[:60]), status=st, lost=fails)
    finally:
        shutil.rmtree(tmp, ignore_errors=True)


def mutant_guard(units):
    jobs = [(u, k, f, o, n) for u in units for k, (f, o, n) in enumerate(M.MUTANTS.get(u, []))]
    res = []
    with cf.ThreadPoolExecutor(max_workers=6) as ex:
        for r in ex.map(lambda j: _run_mutant(*j), jobs):
            res.append(r)
    return res


if __name__ == "__main__":
    us = sys.argv[1:]
    for r in mutant_guard(us):
        print(r["unit"], r["k"], r["status"], r.get("change", r.get("note")), r.get("lost"))
