#!/usr/bin/env python3
"""mutation_sweep.py [max]: generic mutation operators over the source files the units extract from.  For every mutant that
still compiles AND passes the existing test-suite (i.e. the kind of change the tests cannot see), run the units that read
that file: `killed` = some obligation fails / `undecided` / `SURVIVED` = the machinery stays quiet.  Survivors are either
equivalent mutants or gaps in the contracts: they are listed for review (never an alarm).  Works on a scratch copy."""
import os, sys, re, json, shutil, subprocess, tempfile, random
HERE = os.path.dirname(os.path.dirname(os.path.abspath(__file__)))
sys.path.insert(0, os.path.join(HERE, "tools"))
import rustlex as L
FILES = {"src/client.rs": ["u_conn", "u_parse"], "src/request.rs": ["u_newreq", "u_req"], "src/response.rs": ["u_resp", "u_cte"],
         "src/common.rs": ["u_parse", "u_cmp"], "src/util/sequential.rs": ["u_seq", "u_readers"], "src/util/equal_reader.rs": ["u_readers"],
         "src/util/fused_reader.rs": ["u_readers"], "src/util/messages_queue.rs": ["u_queue"], "src/util/task_pool.rs": ["u_pool", "u_worker"],
         "src/util/refined_tcp_stream.rs": ["u_tcp"], "src/util/mod.rs": ["u_cte"], "src/lib.rs": ["u_task", "u_queue"]}
SWAP = {("<", "="): "<", (">", "="): ">"}
def f_is_table(src, pos):
    """a `NNN => "reason phrase"` arm: outside every property"""
    return re.match(r'[0-9]+ => "', src[pos:pos + 12]) is not None
def sites(src):
    toks = L.tokenize(src)
    sg = [i for i, t in enumerate(toks) if t.kind not in ("ws", "comment", "doc")]
    in_test = src.find("#[cfg(test)]")
    out = []
    for k, i in enumerate(sg):
        t = toks[i]
        if in_test >= 0 and t.pos > in_test:
            break
        nx = toks[sg[k + 1]] if k + 1 < len(sg) else None
        pv = toks[sg[k - 1]] if k > 0 else None
        def rep(a, b, new, what):
            out.append((toks[a].pos, toks[b].pos + len(toks[b].text), new, what, t.line))
        if t.kind == "punct" and nx is not None and nx.kind == "punct" and nx.pos == t.pos + 1:
            two = t.text + nx.text
            if two == "<=": rep(i, sg[k + 1], "<", "<= -> <")
            elif two == ">=": rep(i, sg[k + 1], ">", ">= -> >")
            elif two == "==": rep(i, sg[k + 1], "!=", "== -> !=")
            elif two == "!=": rep(i, sg[k + 1], "==", "!= -> ==")
            elif two == "&&": rep(i, sg[k + 1], "||", "&& -> ||")
            elif two == "||" and pv is not None and pv.text not in ("(", ",", "=", "move"): rep(i, sg[k + 1], "&&", "|| -> &&")
        if t.kind == "punct" and t.text == "!" and nx is not None and nx.kind == "ident" and pv is not None and pv.text in ("if", "&", "|", "(", "=", "while", "{", "return", ">") \
                and not (k + 2 < len(sg) and toks[sg[k + 2]].text in ("(", "[", "{") and nx.text.endswith(("assert", "matches", "vec", "format", "println", "write", "unreachable", "panic", "debug", "error", "cfg"))):
            rep(i, i, "", "negation removed")
        if t.kind == "punct" and t.text in ("+", "-") and pv is not None and (pv.kind in ("ident", "num") or pv.text in (")", "]")) and nx is not None and (nx.kind in ("ident", "num") or nx.text == "(") \
                and not (nx.kind == "punct" and nx.text in ("=", ">")) and not (k + 1 < len(sg) and toks[sg[k + 1]].pos == t.pos + 1 and toks[sg[k + 1]].text in ("=", ">")):
            rep(i, i, "-" if t.text == "+" else "+", "%s -> %s" % (t.text, "-" if t.text == "+" else "+"))
        if t.kind == "ident" and t.text in ("min", "max") and pv is not None and pv.text == ".":
            rep(i, i, "max" if t.text == "min" else "min", "%s swapped" % t.text)
        if t.kind == "ident" and t.text in ("true", "false"):
            rep(i, i, "false" if t.text == "true" else "true", "%s flipped" % t.text)
        if t.kind == "num" and re.match(r"^[0-9]+$", t.text) and pv is not None and pv.text not in (".", "(") or (t.kind == "num" and t.text in ("1024", "8192", "4096")):
            if re.match(r"^[0-9]+$", t.text) and int(t.text) < 100000 and not (pv is not None and pv.text == ".") and not (nx is not None and nx.text == "=" and "Some(" not in src[t.pos - 6:t.pos] and f_is_table(src, t.pos)):
                rep(i, i, str(int(t.text) + 1), "%s -> %d" % (t.text, int(t.text) + 1))
        # a whole statement `...ok();` / `.send(..)..;` dropped
        if t.kind == "ident" and t.text in ("notify_one", "notify_all", "flush", "send") and pv is not None and pv.text == ".":
            # find statement start/end
            s0 = k
            while s0 > 0 and toks[sg[s0 - 1]].text not in (";", "{", "}"):
                s0 -= 1
            e0 = k
            depth = 0
            while e0 < len(sg):
                tx = toks[sg[e0]].text
                if tx in "([{": depth += 1
                elif tx in ")]}":
                    if depth == 0: break
                    depth -= 1
                elif tx == ";" and depth == 0: break
                e0 += 1
            if e0 < len(sg) and toks[sg[e0]].text == ";" and toks[sg[s0]].text not in ("let", "return", "if", "match"):
                out.append((toks[sg[s0]].pos, toks[sg[e0]].pos + 1, "", "statement with .%s(..) dropped" % t.text, t.line))
    return out
def sh(cmd, cwd, timeout):
    try:
        p = subprocess.run(cmd, shell=True, cwd=cwd, capture_output=True, text=True, timeout=timeout)
        return p.returncode, p.stdout + p.stderr
    except subprocess.TimeoutExpired:
        return 124, "timeout"
def main():
    mx = int(sys.argv[1]) if len(sys.argv) > 1 else 120
    random.seed(int(os.environ.get("VERIF_SEED", "1")))
    tmp = tempfile.mkdtemp(prefix="verif-sweep-")
    repo = os.path.join(tmp, "repo")
    subprocess.run(["rsync", "-a", "--exclude", "target", "--exclude", ".git", "/repo/", repo + "/"], check=True)
    env = "CARGO_NET_OFFLINE=true CARGO_TARGET_DIR=%s/target" % tmp
    sh("%s cargo test --workspace --no-run --offline" % env, repo, 900)
    cands = []
    only = os.environ.get("VERIF_SWEEP_FILES")
    for f in FILES:
        if only and f not in only.split(","):
            continue
        src = open(os.path.join(repo, f)).read()
        for s in sites(src):
            cands.append((f,) + s)
    import glob
    done = set()
    for jf in glob.glob(os.path.join(HERE, ".work", "mutation_sweep-*.json")) + glob.glob(os.path.join(HERE, "notes", "mutation_sweep-*.json")):
        for r in json.load(open(jf)):
            done.add((r["file"], r["line"], r["what"]))
    cands = [c for c in cands if (c[0], c[5], c[4]) not in done]
    random.shuffle(cands)
    cands = cands[:mx]
    res = []
    try:
        for n, (f, a, b, new, what, line) in enumerate(cands):
            p = os.path.join(repo, f)
            orig = open(p).read()
            open(p, "w").write(orig[:a] + new + orig[b:])
            rec = dict(file=f, line=line, what=what, text=orig[max(0, a - 30):b + 30].replace("\n", " ")[:90])
            rc, out = sh("%s cargo build --offline 2>&1 | tail -3" % env, repo, 300)
            if "error" in out and "warning: unused" not in out.split("error")[0][-20:] and ("error[" in out or "error:" in out):
                rec["status"] = "does-not-compile"
            else:
                rc, out = sh("%s timeout 150 cargo test --workspace --no-fail-fast --offline 2>&1 | grep -E '^test result|FAILED|panicked' | head -30" % env, repo, 200)
                if rc == 124 or "FAILED" in out or "panicked" in out or re.search(r"[1-9][0-9]* failed", out) or "test result" not in out:
                    rec["status"] = "killed-by-tests"
                else:
                    sts = []
                    for u in FILES[f]:
                        e2 = dict(os.environ, VERIF_REPO=repo, VERIF_WORK=os.path.join(tmp, "work"), VERIF_THREADS="4")
                        r = subprocess.run([sys.executable, os.path.join(HERE, "tools", "runit.py"), u], env=e2, capture_output=True, text=True, timeout=900)
                        first = r.stdout.split("\n")[0]
                        st = "killed" if "status=failed" in first else ("undecided" if "status=undecided" in first else "ok")
                        sts.append((u, st, [l[5:][:140] for l in r.stdout.split("\n") if l.startswith("FAIL ")][:1]))
                    rec["units"] = sts
                    rec["status"] = "killed" if any(s == "killed" for _, s, _ in sts) else ("undecided" if any(s == "undecided" for _, s, _ in sts) else "SURVIVED")
            open(p, "w").write(orig)
            res.append(rec)
            print("%3d/%d %-18s %s:%d %s | %s" % (n + 1, len(cands), rec["status"], f, line, what, rec["text"]), flush=True)
    finally:
        shutil.rmtree(tmp, ignore_errors=True)
    json.dump(res, open(os.path.join(HERE, ".work", "mutation_sweep-%s.json" % os.environ.get("VERIF_SEED", "1")), "w"), indent=1)
    from collections import Counter
    print(Counter(r["status"] for r in res))
main()
