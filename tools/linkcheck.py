#!/usr/bin/env python3
"""A-LINK, mechanical part: for callees that are used BY CONTRACT in one unit and PROVED in another with the same ghost
vocabulary, every assumed `ensures` clause must occur textually among the proved clauses.  (Pairs whose units use different
vocabularies -- new_request in u_conn, raw_print in u_req/u_conn -- stay assumptions, see DESIGN A.2.)"""
import os, re, sys
HERE = os.path.dirname(os.path.dirname(os.path.abspath(__file__)))

PAIRS = [
    # (assumed-in file, impl selector, fn)   (proved-in file, impl selector, fn)
    (("contracts/common_api_assumed.inc", "HeaderField", "equiv"), ("contracts/u_parse.rs.tpl", "HeaderField", "equiv")),
    (("contracts/common_api_assumed.inc", "HeaderField", "as_str"), ("contracts/u_parse.rs.tpl", "HeaderField", "as_str")),
    (("contracts/common_api_assumed.inc", "Method", "as_str"), ("contracts/u_parse.rs.tpl", "Method", "as_str")),
    (("contracts/u_newreq.rs.tpl", "EqualReader<R>", "new"), ("contracts/u_readers.rs.tpl", "EqualReader<R>", "new")),
    (("contracts/u_newreq.rs.tpl", "FusedReader<R>", "new"), ("contracts/u_readers.rs.tpl", "FusedReader<R>", "new")),
    (("contracts/u_resp.rs.tpl", "Header", "from_bytes"), ("contracts/u_parse.rs.tpl", "Header", "from_bytes")),
    (("contracts/u_task.rs.tpl", "MessagesQueue<T>", "push"), ("contracts/u_queue.rs.tpl", "MessagesQueue<T>", "push")),
    (("contracts/u_resp.rs.tpl", None, "choose_transfer_encoding"), ("contracts/u_cte.rs.tpl", None, "choose_transfer_encoding")),
    (("contracts/u_conn.rs.tpl", "Iterator for SequentialWriterBuilder<W>", "next"), ("contracts/u_seq.rs.tpl", "Iterator for SequentialWriterBuilder<W>", "next")),
]


def clauses(path, impl_sel, fn):
    lines = open(os.path.join(HERE, path)).read().split("\n")
    cur_impl = None
    i = 0
    while i < len(lines):
        s = lines[i].strip()
        m = re.match(r'//@impl\s+\S+\s+"([^"]+)"', s)
        if m:
            cur_impl = m.group(1)
        if s.startswith("//@endimpl"):
            cur_impl = None
        if s.startswith("//@fn ") and cur_impl == impl_sel and (s.split()[1] == fn or (impl_sel is None and len(s.split()) > 2 and s.split()[2] == fn)):
            j = i + 1
            spec = []
            in_spec = False
            while j < len(lines) and lines[j].strip() != "//@endfn":
                t = lines[j].strip()
                if t.startswith("//@"):
                    in_spec = t == "//@spec"
                elif in_spec:
                    spec.append(re.sub(r"//.*$", "", lines[j]))
                j += 1
            txt = " ".join(spec)
            m2 = re.search(r"\bensures\b(.*)$", txt)
            ens = m2.group(1) if m2 else ""
            out, depth, curc = [], 0, ""
            for ch in ens:
                if ch in "([{":
                    depth += 1
                elif ch in ")]}":
                    depth -= 1
                if ch == "," and depth == 0:
                    out.append(curc)
                    curc = ""
                else:
                    curc += ch
            out.append(curc)
            return [re.sub(r"\s+", " ", c).strip() for c in out if c.strip()]
        i += 1
    return None


def run():
    problems = []
    for (a, b) in PAIRS:
        ca, cb = clauses(*a), clauses(*b)
        if ca is None or cb is None:
            problems.append("cannot find %s or %s" % (a, b))
            continue
        for c in ca:
            if c not in cb:
                problems.append("assumed clause of %s::%s in %s is not among the proved clauses in %s: `%s`" % (a[1], a[2], a[0], b[0], c))
    return problems


if __name__ == "__main__":
    p = run()
    for x in p:
        print("LINK-MISMATCH:", x)
    print("linkcheck: %d pairs, %d problems" % (len(PAIRS), len(p)))
    sys.exit(2 if p else 0)
