"""Minimal Rust lexer + item locator used by the extractor.

Only what the extractor needs: a token stream that is exact (concatenating the
token texts gives back the file), brace matching, and location of items by name.
No parsing of expressions is attempted.
"""
import re
from collections import namedtuple

Tok = namedtuple("Tok", "kind text pos line")
# kinds: ws, comment, doc, ident, lifetime, str, char, num, punct

_IDENT = re.compile(r"[A-Za-z_][A-Za-z0-9_]*")
_NUM = re.compile(r"[0-9][0-9A-Za-z_]*(\.[0-9][0-9A-Za-z_]*)?")


class LexError(Exception):
    pass


def tokenize(src):
    toks = []
    i, n, line = 0, len(src), 1
    while i < n:
        c = src[i]
        start = i
        if c in " \t\r\n":
            while i < n and src[i] in " \t\r\n":
                i += 1
            kind = "ws"
        elif src.startswith("//", i):
            j = src.find("\n", i)
            i = n if j < 0 else j
            t = src[start:i]
            kind = "doc" if (t.startswith("///") and not t.startswith("////")) or t.startswith("//!") else "comment"
        elif src.startswith("/*", i):
            depth, i = 1, i + 2
            while i < n and depth:
                if src.startswith("/*", i):
                    depth += 1; i += 2
                elif src.startswith("*/", i):
                    depth -= 1; i += 2
                else:
                    i += 1
            kind = "comment"
        elif c == '"' or (c == 'b' and src.startswith('b"', i)):
            i += 2 if c == 'b' else 1
            while i < n and src[i] != '"':
                i += 2 if src[i] == "\\" else 1
            i += 1
            kind = "str"
        elif (c == 'r' and re.match(r'r#*"', src[i:i + 8])) or (c == 'b' and re.match(r'br#*"', src[i:i + 9])):
            m = re.match(r'b?r(#*)"', src[i:])
            close = '"' + m.group(1)
            j = src.find(close, i + m.end())
            if j < 0:
                raise LexError("unterminated raw string")
            i = j + len(close)
            kind = "str"
        elif c == "'" or (c == 'b' and src.startswith("b'", i)):
            k = i + (2 if c == 'b' else 1)
            # char literal or lifetime?
            if src[k] == "\\":
                j = src.find("'", k + 2)
                i = j + 1
                kind = "char"
            elif k + 1 < n and src[k + 1] == "'":
                i = k + 2
                kind = "char"
            else:
                m = _IDENT.match(src, k)
                if not m:
                    raise LexError("bad quote at %d" % i)
                i = m.end()
                kind = "lifetime"
        elif c.isalpha() or c == "_":
            i = _IDENT.match(src, i).end()
            kind = "ident"
        elif c.isdigit():
            m = _NUM.match(src, i)
            i = m.end()
            # do not swallow `..` of a range: 0..N
            t = src[start:i]
            if "." in t and src.startswith("..", start + t.index(".")):
                i = start + t.index(".")
            kind = "num"
        else:
            i += 1
            kind = "punct"
        toks.append(Tok(kind, src[start:i], start, line))
        line += src.count("\n", start, i)
    return toks


OPEN = {"(": ")", "[": "]", "{": "}"}
CLOSE = {v: k for k, v in OPEN.items()}


def sig(toks):
    """indices of significant tokens (not ws/comment/doc)"""
    return [i for i, t in enumerate(toks) if t.kind not in ("ws", "comment", "doc")]


def match_close(toks, i):
    """toks[i] is an opening bracket; return index of its matching closer."""
    depth = 0
    for j in range(i, len(toks)):
        t = toks[j]
        if t.kind != "punct":
            continue
        if t.text in OPEN:
            depth += 1
        elif t.text in CLOSE:
            depth -= 1
            if depth == 0:
                return j
    raise LexError("unbalanced at line %d" % toks[i].line)


def text(toks, a, b):
    return "".join(t.text for t in toks[a:b])


def norm(s):
    return re.sub(r"\s+", " ", s).strip()


ITEM_KW = ("struct", "enum", "fn", "impl", "trait", "type", "static", "const", "mod", "use")


def top_items(toks, lo=0, hi=None):
    """Split the token range [lo,hi) (file level or the inside of an impl/mod) into items.
    Returns list of dicts: kw, name, start (incl. attributes/doc/vis), kw_idx, body_open, end (exclusive)."""
    hi = len(toks) if hi is None else hi
    items = []
    i = lo
    start = None
    while i < hi:
        t = toks[i]
        if t.kind in ("ws", "comment"):
            i += 1
            continue
        if start is None:
            start = i
        if t.kind == "doc":
            i += 1
            continue
        if t.kind == "punct" and t.text == "#":
            # attribute  #[...] or #![...]
            j = i + 1
            while toks[j].kind == "ws" or toks[j].text == "!":
                j += 1
            i = match_close(toks, j) + 1
            continue
        if t.kind == "ident" and t.text in ITEM_KW and not (t.text == "const" and _next_sig(toks, i).text == "fn"):
            kw = t.text
            # name
            name = None
            if kw == "impl":
                name = None
            else:
                j = i + 1
                while toks[j].kind in ("ws", "comment"):
                    j += 1
                name = toks[j].text
            # find end: first `{` or `;` at bracket depth 0 (ignoring <> which cannot contain braces here)
            j = i + 1
            depth = 0
            body_open = None
            while j < hi:
                tj = toks[j]
                if tj.kind == "punct":
                    if tj.text in "([":
                        depth += 1
                    elif tj.text in ")]":
                        depth -= 1
                    elif tj.text == "{" and depth == 0 and kw in ("use", "type", "static", "const"):
                        j = match_close(toks, j)
                    elif tj.text == "{" and depth == 0:
                        body_open = j
                        j = match_close(toks, j)
                        # struct X { .. }  / enum / fn / impl / trait / mod  end at the closing brace
                        break
                    elif tj.text == ";" and depth == 0:
                        break
                j += 1
            end = j + 1
            items.append(dict(kw=kw, name=name, start=start, kw_idx=i, body_open=body_open, end=end))
            i = end
            start = None
            continue
        # visibility, unsafe, async, extern, default, etc.
        if t.kind == "ident" and t.text == "pub":
            j = i + 1
            while toks[j].kind == "ws":
                j += 1
            if toks[j].text == "(":
                i = match_close(toks, j) + 1
            else:
                i += 1
            continue
        if t.kind == "ident" and t.text in ("unsafe", "async", "extern", "default", "const"):
            i += 1
            continue
        if t.kind == "str":  # extern "C"
            i += 1
            continue
        if t.kind == "ident" and _next_sig(toks, i).text == "!":
            # macro invocation item: name!{...} or name!(...);
            j = i + 1
            while toks[j].text not in OPEN:
                j += 1
            e = match_close(toks, j) + 1
            while e < hi and toks[e].kind == "ws":
                e += 1
            if e < hi and toks[e].text == ";":
                e += 1
            items.append(dict(kw="macro", name=t.text, start=start, kw_idx=i, body_open=None, end=e))
            i = e
            start = None
            continue
        raise LexError("cannot classify token %r at line %d" % (t.text, t.line))
    return items


def _next_sig(toks, i):
    j = i + 1
    while j < len(toks) and toks[j].kind in ("ws", "comment", "doc"):
        j += 1
    return toks[j] if j < len(toks) else Tok("eof", "", 0, 0)


def impl_header(toks, item):
    return norm(text(toks, item["kw_idx"], item["body_open"]))
