"""Kani on a scratch copy of /repo's working tree (DESIGN 2 / secondary engine)."""
import os
import re
import sys
import time
import shutil
import tempfile
import subprocess

VERIF = os.path.dirname(os.path.dirname(os.path.abspath(__file__)))
REPO = os.environ.get("VERIF_REPO", "/repo")


def run_harnesses(specs, prop):
    """specs: list of dict(name, file (repo-relative file to append to), module (path under /verif/kani),
    harness, bounded (bool), vars (names of the kani::any() values in order), replay (dict bin,args-template,input))"""
    tmp = tempfile.mkdtemp(prefix="verif-kani-")
    res = []
    try:
        scratch = os.path.join(tmp, "repo")
        subprocess.run(["rsync", "-a", "--exclude", "target", "--exclude", ".git", REPO + "/", scratch + "/"], check=True)
        appended = set()
        for sp in specs:
            key = (sp["file"], sp["module"])
            if key in appended:
                continue
            appended.add(key)
            with open(os.path.join(scratch, sp["file"]), "a") as f:
                f.write(open(os.path.join(VERIF, sp["module"])).read())
        env = dict(os.environ, CARGO_NET_OFFLINE="true", CARGO_TARGET_DIR=os.path.join(tmp, "target"))
        for sp in specs:
            cmd = ["cargo", "kani", "--harness", sp["harness"], "-Z", "concrete-playback", "--concrete-playback=print"] + sp.get("flags", [])
            t0 = time.time()
            r = dict(name=sp["name"], harness=sp["harness"], bounded=bool(sp.get("bounded")), cmd="(scratch copy of /repo + %s) %s" % (sp["module"], " ".join(cmd)))
            try:
                p = subprocess.run(cmd, cwd=scratch, env=env, capture_output=True, text=True, timeout=sp.get("timeout", 1800))
                out = p.stdout + p.stderr
            except subprocess.TimeoutExpired:
                r.update(status="undecided", reason="kani timeout", time_s=round(time.time() - t0, 1), checks=0)
                res.append(r)
                continue
            r["time_s"] = round(time.time() - t0, 1)
            m = re.search(r"\*\* (\d+) of (\d+) failed", out)
            r["checks"] = int(m.group(2)) if m else 0
            mt = re.search(r"Verification Time: ([0-9.]+)s", out)
            r["solver_s"] = float(mt.group(1)) if mt else None
            if "VERIFICATION:- SUCCESSFUL" in out and m and int(m.group(1)) == 0:
                r["status"] = "ok"
            elif "VERIFICATION:- FAILED" in out:
                r["status"] = "failed"
                failed = re.findall(r"Failed Checks: (.*)\n\s*File: \"([^\"]+)\", line (\d+)", out)
                vals = []
                mcp = re.search(r"let concrete_vals: Vec<Vec<u8>> = vec!\[(.*?)\];", out, re.S)
                if mcp:
                    vals = [v.strip() for v in re.findall(r"//\s*(.+)", mcp.group(1))]
                names = sp.get("vars", [])
                ce = {names[i] if i < len(names) else "v%d" % i: re.sub(r"[a-z]+$", "", v) for i, v in enumerate(vals)}
                desc = failed[0][0] if failed else "verification failed"
                only_unwind = failed and all("unwinding assertion" in f[0] for f in failed)
                if only_unwind:
                    r["status"] = "undecided"
                    r["reason"] = "unwinding bound too small"
                else:
                    fid = "kani:%s:%s" % (sp["harness"], desc)
                    f = dict(id=fid, fn=sp.get("function", sp["harness"]), kind="kani-assert", clause=desc, site="%s (harness %s)" % (sp["module"], sp["harness"]),
                             message=desc, rendered=("\n".join("%s at %s:%s" % x for x in failed) + "\ncounterexample: %s" % ce), props=[prop])
                    if ce and sp.get("replay"):
                        rp = sp["replay"]
                        import collections
                        dd = collections.defaultdict(lambda: "0", ce)
                        args = [a.format_map(dd) if "{" in a else a for a in rp["args"]]
                        f["replay_request"] = dict(bin=rp["bin"], args=args, input="%s with %s" % (rp["input"], ce))
                    elif ce:
                        f["failing_input"] = "kani counterexample %s" % ce
                    r["failure"] = f
                    r["counterexample"] = ce
            else:
                r["status"] = "undecided"
                r["reason"] = "kani did not finish: " + out[-1500:]
            res.append(r)
    finally:
        shutil.rmtree(tmp, ignore_errors=True)
    return res
