"""Run one unit through Verus and map the outcome to named obligations."""
import os
import re
import sys
import json
import time
import hashlib
import subprocess

sys.path.insert(0, os.path.dirname(os.path.abspath(__file__)))
import extract as X
import rustlex as L

VERIF = X.VERIF
# one scratch directory per process: concurrent checks (several properties share units) must not rewrite each other's files
WORK = os.path.join(os.environ.get("VERIF_WORK", os.path.join(VERIF, ".work")), "run-%d" % os.getpid())
VERUS = os.environ.get("VERUS", "verus")

KIND = [
    (r"^postcondition not satisfied", "post"),
    (r"^precondition not satisfied", "pre"),
    (r"^invariant not satisfied at end of loop body", "inv-end"),
    (r"^invariant not satisfied before loop", "inv-init"),
    (r"^loop invariant not satisfied|^invariant not satisfied", "inv"),
    (r"^assertion failed", "assert"),
    (r"^possible arithmetic (underflow|overflow)|^possible division by zero|^possible bit shift", "arith"),
    (r"^decreases not satisfied|^could not prove termination|^loop must have a decreases", "decreases"),
    (r"^unable to prove post-condition of closure", "closure-post"),
    (r"^unable to prove assertion safety condition|recommendation not met", "other"),
    (r"^cannot show invariant holds|^cannot prove that", "other"),
    (r"^unreachable|^possible unwind|^unwind", "other"),
]
RLIMIT = re.compile(r"[Rr]esource limit|rlimit|timed? ?out", re.I)
SECONDARY_CLAUSE = ("failed this postcondition", "failed precondition", "failed this invariant", "failed invariant",
                    "failed this decreases", "failed this ensures")


def sha(s):
    return hashlib.sha256(s.encode()).hexdigest()[:16]


class UnitResult:
    def __init__(self):
        self.status = "ok"          # ok | failed | undecided
        self.reason = ""
        self.failures = []          # dicts: id, fn, kind, clause, site, message, rendered, props
        self.fns = []               # from the splicer
        self.verified = 0
        self.errors = 0
        self.smt_ms = 0
        self.total_ms = 0
        self.fn_times = {}
        self.rewrites = []
        self.trusted = []
        self.assumed = []
        self.required = []
        self.unit_file = ""
        self.cmd = ""
        self.vacuity = None
        self.obligations = 0
        self.discharged = 0
        self.wall_s = 0.0
        self.item_text = {}        # `kw Name` -> hash of the type definitions the unit extracts
        self.strlit_patterns = {}  # fn -> number of string-literal patterns in its text
        self.bare_loops = {}       # fn -> number of loops without a template invariant
        self.lost_required = {}    # fn -> required anchors that found no statement
        self.lost_optional = {}    # fn -> optional anchors that found no statement
        self.bare_closures = {}    # fn -> closures without a contract (non-trivial bodies) in the extracted text
        self.unconfirmed = []      # failures of the full run that vanish when the function is verified alone (solver instability, not violations)


def _line_text_norm(unit, out_line):
    return L.norm("".join(p for p, _ in unit.out.lines[out_line - 1])) if 0 < out_line <= len(unit.out.lines) else ""


def _fn_of_line(unit, out_line):
    for f in unit.fns:
        if f["out_first"] <= out_line - 1 <= f["out_last"]:
            return f
    return None


def _strip_clause(s):
    s = re.sub(r"//.*$", "", s).strip().rstrip(",").strip()
    return s


def run_verus(path, extra=(), timeout=900):
    cmd = [VERUS, os.path.basename(path), "--output-json", "--time-expanded", "--multiple-errors", "8",
           "--error-format=json", "--num-threads", os.environ.get("VERIF_THREADS", "8")] + list(extra)
    t0 = time.time()
    try:
        p = subprocess.run(cmd, cwd=os.path.dirname(path), capture_output=True, text=True, timeout=timeout)
    except subprocess.TimeoutExpired:
        return cmd, None, [], time.time() - t0, "timeout"
    wall = time.time() - t0
    js = None
    try:
        js = json.loads(p.stdout)
    except Exception:
        # stdout may carry non-json noise before the object
        m = p.stdout.find("{")
        try:
            js = json.loads(p.stdout[m:]) if m >= 0 else None
        except Exception:
            js = None
    diags = []
    for ln in p.stderr.split("\n"):
        ln = ln.strip()
        if ln.startswith("{"):
            try:
                diags.append(json.loads(ln))
            except Exception:
                pass
    return cmd, js, diags, wall, p.stderr if js is None else ""


def _classify(unit, name, diags, vr, have_times):
    """map Verus diagnostics to named obligations; returns (failures, front_end_errors, rlimit_reason)"""
    failures, front_end, rlimit = [], [], ""
    for d in diags:
        if d.get("level") != "error":
            continue
        msg = d.get("message", "")
        if msg.startswith("aborting due to"):
            continue
        kind = None
        for pat, k in KIND:
            if re.search(pat, msg):
                kind = k
                break
        spans = d.get("spans", [])
        prim = [s for s in spans if s.get("is_primary")]
        if RLIMIT.search(msg):
            rlimit = "solver resource limit: " + msg
            continue
        if kind is None:
            # Verus distinguishes front-end (VIR) errors from failed proof obligations in its JSON result
            if vr.get("encountered-vir-error") or d.get("code") or not have_times:
                front_end.append(d.get("rendered", msg))
                continue
            kind = "other"
        pline = prim[0]["line_start"] if prim else 0
        pcol = prim[0]["column_start"] if prim else 0
        # the clause that failed (secondary span) if any
        clause_span = None
        for s in spans:
            if (s.get("label") or "") in SECONDARY_CLAUSE or ((s.get("label") or "").startswith("failed ")):
                clause_span = s
        # function: where the executable/primary site lies; for `post` the primary span is the clause
        site_line = pline
        if kind == "post":
            # primary = clause, secondary = "at the end of the function body" / return site
            clause_span = prim[0] if prim else None
            others = [s for s in spans if not s.get("is_primary")]
            if others:
                site_line = others[0]["line_start"]
        fn = _fn_of_line(unit, site_line) or _fn_of_line(unit, pline)
        clause_txt = ""
        clause_origin = None
        if clause_span is not None:
            cl, cc = clause_span["line_start"], clause_span["column_start"]
            clause_origin = unit.out.origin_at(cl, cc)
            # the source text of the span (first line) is the most stable name of the clause
            txts = clause_span.get("text") or []
            if txts:
                t = txts[0]["text"]
                clause_txt = _strip_clause(t[txts[0]["highlight_start"] - 1:] if len(txts) > 1 else t[txts[0]["highlight_start"] - 1: txts[0]["highlight_end"] - 1])
        site_origin = unit.out.origin_at(site_line, pcol if site_line == pline else 1)
        site_txt = _line_text_norm(unit, site_line)
        if kind in ("arith", "assert", "inv-end", "inv-init", "inv", "decreases", "other") and not clause_txt and prim:
            txts = prim[0].get("text") or []
            if txts:
                t = txts[0]["text"]
                clause_txt = _strip_clause(t[txts[0]["highlight_start"] - 1: txts[0]["highlight_end"] - 1] if len(txts) == 1 else t[txts[0]["highlight_start"] - 1:])
        fname = fn["qual"] if fn else "<prelude-or-lemma>"
        if fn is None:
            # a lemma / proof fn of the template: name it by the enclosing `fn` line above
            for k in range(min(site_line, len(unit.out.lines)) - 1, -1, -1):
                m = re.search(r"\bfn\s+([A-Za-z0-9_]+)", "".join(p for p, _ in unit.out.lines[k]))
                if m:
                    fname = m.group(1)
                    break
        if kind == "pre":
            key = "%s @ %s" % (L.norm(clause_txt), re.sub(r"\s+", " ", site_txt)[:100])
        elif kind == "post":
            key = L.norm(clause_txt)
        else:
            key = L.norm(clause_txt) or site_txt[:100]
        oid = "%s:%s:%s:%s" % (name, fname, kind, key)
        lost = sorted(g for g in unit.lost_ghost.get(fname, ()) if re.search(r"\b%s\b" % re.escape(g), clause_txt + " " + (site_txt if kind != "post" else "")))
        failures.append(dict(id=oid, fn=fname, kind=kind, clause=clause_txt, site=site_txt, lost_ghost=lost, lost_closures=list(unit.lost_closures.get(fname, [])), lost_anchors=list(unit.lost_required.get(fname, [])) + list(unit.lost_optional.get(fname, [])), bare_closures=list(unit.bare_closures.get(fname, [])),
                                 site_origin=list(site_origin), clause_origin=list(clause_origin) if clause_origin else None,
                                 message=msg, rendered=d.get("rendered", ""), props=(fn["props"] if fn else [])))
    return failures, front_end, rlimit


def _verus_name(res, f):
    """the name Verus uses for an extracted function (key of the per-function time table), or None"""
    qual = f["qual"]
    typ, _, meth = qual.rpartition("::")
    typ = typ.split(" for ")[-1]
    typ = re.sub(r"<.*$|\s+where\b.*$", "", typ).strip()
    # the emitted name (after `as <newname>` / R6 `drop` -> `drop_body`) is authoritative; fall back to the source name
    for names in ([f.get("name")] if f.get("name") else []), [meth, meth + "_body"]:
        hits = [k for k in res.fn_times if k.split("::")[-1] in names
                and ((not typ and len(k.split("::")) == 2) or (typ and len(k.split("::")) >= 2 and k.split("::")[-2] == typ))]
        if len(hits) == 1:
            return "::".join(hits[0].split("::")[1:])
        if len(hits) > 1:
            return None     # ambiguous: take the failure as reported
    return None


def _confirm_in_isolation(res, unit, name, path):
    res.unconfirmed = []
    by_fn = {}
    for f in res.failures:
        by_fn.setdefault(f["fn"], []).append(f)
    keep = []
    for fn, fs in by_fn.items():
        info = [x for x in unit.fns if x["qual"] == fn]
        vname = _verus_name(res, info[0]) if info else None
        if vname is None:
            keep += fs          # lemma / required impl / unmapped name: taken as reported
            continue
        cmd, js, diags, wall, raw = run_verus(path, extra=["--verify-root", "--verify-function", vname])
        res.wall_s += wall
        if js is None:
            keep += fs
            continue
        vr = js.get("verification-results", {})
        if vr.get("verified", 0) + vr.get("errors", 0) == 0:
            keep += fs          # the name selected nothing
            continue
        iso, fe, rl = _classify(unit, name, diags, vr, True)
        if fe or rl:
            keep += fs
            continue
        ids = {x["id"] for x in iso}
        for f in fs:
            if f["id"] in ids:
                f["confirmed_in_isolation"] = True
                keep.append(f)
            else:
                res.unconfirmed.append(f["id"])
        # an obligation that fails only in isolation is still a failed obligation
        for x in iso:
            if x["id"] not in {f["id"] for f in fs}:
                x["confirmed_in_isolation"] = True
                keep.append(x)
    res.failures = keep


def check_unit(tpl_path, vacuity=True, keep=True):
    """assemble + verify one unit; returns UnitResult"""
    res = UnitResult()
    t0 = time.time()
    os.makedirs(WORK, exist_ok=True)
    name = os.path.basename(tpl_path).replace(".rs.tpl", "")
    unit = X.Unit(tpl_path)
    try:
        text = unit.build()
    except X.Undecided as e:
        res.status, res.reason = "undecided", str(e)
        return res
    path = os.path.join(WORK, name + ".rs")
    open(path, "w").write(text)
    res.unit_file = path
    res.fns = unit.fns
    res.rewrites = unit.rewrites
    res.trusted = X.scan_trusted(text)
    res.assumed = unit.assumed
    res.required = unit.required
    res.bare_closures = dict(unit.bare_closures)
    res.item_text = {k: sha(v) for k, v in unit.item_text.items()}
    res.strlit_patterns = dict(unit.strlit_patterns)
    res.bare_loops = dict(unit.bare_loops)
    res.callees = dict(unit.callees)
    res.trusted_text = {k: sha(v) for k, v in unit.trusted_text.items()}
    # names that carry a contract written in this unit (extracted functions, wrappers, assumed std contracts of prelude/)
    res.contracted_names = sorted(set(re.findall(r"\bfn\s+(\w+)", text)) | set(re.findall(r"assume_specification[^\[;]*\[[^\]]*?(\w+)\s*(?:::<[^\]]*>)?\s*\]", text)))
    res.lost_required = dict(unit.lost_required)
    res.lost_optional = dict(unit.lost_optional)
    cmd, js, diags, wall, raw = run_verus(path)
    res.cmd = " ".join(cmd)
    if js is None:
        res.status, res.reason = "undecided", "verus produced no result: %s" % (raw or "")[-2000:]
        return res
    vr = js.get("verification-results", {})
    res.verified, res.errors = vr.get("verified", 0), vr.get("errors", 0)
    tm = js.get("times-ms", {})
    res.total_ms = tm.get("total", 0)
    res.smt_ms = tm.get("smt", {}).get("smt-run", 0)
    for m in tm.get("smt", {}).get("smt-run-module-times", []):
        for fb in m.get("function-breakdown", []):
            res.fn_times[fb["function"]] = dict(ms=fb.get("time", 0), rlimit=fb.get("rlimit", 0), success=fb.get("success"))
    res.failures, front_end, rl = _classify(unit, name, diags, vr, bool(res.fn_times))
    if rl:
        res.status, res.reason = "undecided", rl
    # A failure counts only if it reproduces when the function is verified on its own: after a failed query Verus keeps
    # going in a solver context that differs from a fresh one, and a proof that merely becomes unstable there is still a proof.
    if res.failures and not front_end and not rl:
        _confirm_in_isolation(res, unit, name, path)
    if front_end:
        res.status = "undecided"
        res.reason = "verifier front end rejected the unit (unsupported construct or contract error):\n" + "\n".join(front_end)[:4000]
    elif res.status != "undecided":
        if res.failures or res.errors:
            res.status = "failed"
            if not res.failures and res.unconfirmed:
                res.status = "ok"       # every reported failure was discharged when its function was verified alone
            elif not res.failures:
                res.status, res.reason = "undecided", "verus reported %d errors but none could be mapped" % res.errors
    # dedupe failures by id
    seen = {}
    for f in res.failures:
        seen.setdefault(f["id"], f)
    res.failures = list(seen.values())
    # obligation accounting: explicit clauses + one safety bundle per extracted function + verus items
    explicit = sum(sum(f["clauses"].values()) for f in unit.fns)
    res.obligations = explicit + len(unit.fns) + max(0, (res.verified + res.errors) - len(unit.fns))
    res.discharged = res.obligations - len(res.failures)
    # vacuity pass
    if vacuity and res.status in ("ok", "failed"):
        vunit = X.Unit(tpl_path)
        vtext = vunit.build(vacuity=True)
        vpath = os.path.join(WORK, name + "_vacuity.rs")
        open(vpath, "w").write(vtext)
        vcmd, vjs, vdiags, vwall, vraw = run_verus(vpath)
        hit = set()
        for d in vdiags:
            if d.get("level") == "error" and d.get("message", "").startswith("assertion failed"):
                for s in d.get("spans", []):
                    if s.get("is_primary"):
                        for t in s.get("text") or []:
                            if "VACUITY-PROBE" in t["text"]:
                                f = _fn_of_line(vunit, s["line_start"])
                                if f:
                                    hit.add(f["qual"])
        missing = [f["qual"] for f in vunit.fns if f["qual"] not in hit]
        res.vacuity = dict(probes=len(vunit.fns), refuted=len(hit), vacuous=missing)
        vfront = [d for d in vdiags if d.get("level") == "error" and (d.get("code") or (vjs or {}).get("verification-results", {}).get("encountered-vir-error"))]
        if vjs is None or vfront or not hit and vunit.fns and not (vjs.get("times-ms", {}).get("smt", {}).get("smt-run-module-times")):
            res.vacuity["vacuous"] = []
            if res.status == "ok":
                res.status, res.reason = "undecided", "the vacuity pass could not be run (front-end error in the probe unit)"
        elif missing:
            res.status = "undecided"
            res.reason = "vacuity guard: `assert(false)` at entry was NOT refuted in: %s (contradictory precondition or assumed spec)" % ", ".join(missing)
        res.wall_s += vwall
        if not keep:
            os.remove(vpath)
    res.wall_s = time.time() - t0
    return res


if __name__ == "__main__":
    r = check_unit(sys.argv[1])
    print(json.dumps({k: v for k, v in r.__dict__.items() if k not in ("fns",)}, indent=1, default=str)[:6000])
