#!/usr/bin/env python3
"""seed_rerun.py [id-prefix ...]: re-apply every stored seeded change to /repo, run the checks of the properties it breaks,
undo it, and print which checks raise the alarm.  Evidence is restored afterwards; nothing is committed to /repo."""
import os, sys, json, shutil, subprocess, glob
V = "/verif"
def sh(cmd, cwd=None):
    p = subprocess.run(cmd, shell=True, cwd=cwd, capture_output=True, text=True)
    return p.returncode, p.stdout + p.stderr
assert sh("git -C /repo status --short")[1].strip() == "", "/repo is not clean"
save = "/tmp/seed-rerun-ev"
shutil.rmtree(save, ignore_errors=True); shutil.copytree(V + "/evidence", save)
rows = []
try:
    for d in sorted(glob.glob(V + "/seeded/*")):
        sid = os.path.basename(d)
        if sys.argv[1:] and not any(sid.startswith(a) for a in sys.argv[1:]):
            continue
        meta = json.load(open(d + "/meta.json"))
        props = meta.get("breaks") or [sid[:3]]
        rc, out = sh("git -C /repo apply %s/patch.diff" % d)
        if rc != 0:
            rows.append((sid, "patch does not apply", "")); continue
        try:
            res = []
            for p in props:
                rc, out = sh("./check %s" % p, cwd=V)
                ob = [l.strip()[:150] for l in out.split("\n") if l.strip().startswith("obligation:")]
                vl = [l for l in out.split("\n") if l.startswith("VIOLATION ")]
                conc = any(not l.rstrip().endswith("no-failing-input-found") for l in vl)
                res.append("%s=%s" % (p, {0: "ok", 1: "VIOLATION" + ("(concrete-input)" if conc else "(no-input)"), 2: "undecided"}.get(rc, rc)) + (" [%s]" % "; ".join(ob[:2]) if ob else ""))
        finally:
            sh("git -C /repo checkout HEAD -- . ; git -C /repo reset -q HEAD")
        rows.append((sid, " ".join(res), ",".join(meta.get("detected_by", []))))
        print("%-36s %s   (recorded: %s)" % rows[-1], flush=True)
finally:
    shutil.rmtree(V + "/evidence"); shutil.move(save, V + "/evidence")
    print("repo clean:", sh("git -C /repo status --short")[1].strip() == "")
