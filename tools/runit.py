#!/usr/bin/env python3
"""runit.py <unit>: run one unit and print a summary (development helper)"""
import sys, os
sys.path.insert(0, os.path.dirname(os.path.abspath(__file__)))
import verus_unit as VU
import atexit, shutil
if '--keep' not in sys.argv:
    atexit.register(lambda: shutil.rmtree(VU.WORK, ignore_errors=True))
r = VU.check_unit(os.path.join(VU.VERIF, "contracts", sys.argv[1] + ".rs.tpl"))
print("status=%s obligations=%d discharged=%d verified=%d errors=%d wall=%.1fs smt=%dms vacuity=%s" % (r.status, r.obligations, r.discharged, r.verified, r.errors, r.wall_s, r.smt_ms, r.vacuity))
if r.reason:
    print("reason:", r.reason)
for f in r.failures:
    print("FAIL", f["id"]); print(f["rendered"])
if "-v" in sys.argv:
    for x in r.rewrites: print("  rewrite:", x)
    for x in r.assumed: print("  assumed:", x)
    slow = sorted(r.fn_times.items(), key=lambda kv: -kv[1]["ms"])[:5]
    print("  slowest:", slow)
