#!/usr/bin/env python3
"""benign_check.py [dir ...]: the end-to-end false-alarm test.  Each behaviour-preserving patch (benign/B*/p*.diff) is applied to /repo
and the REAL ./check is run for every property one of whose units reads a file the patch touches -- including the pending / unit-level
arbitration by scenario programs, which tools/benign_eval.py (units only) does not exercise.  rc 1 (a VIOLATION line) on such a patch is a
false alarm; rc 2 (undecided) is acceptable.  /repo and evidence/ are restored afterwards."""
import os, sys, re, glob, json, shutil, subprocess, tempfile, concurrent.futures as cf
V = "/verif"
sys.path.insert(0, os.path.join(V, "tools"))
import props as P
def sh(cmd, cwd=None):
    p = subprocess.run(cmd, shell=True, cwd=cwd, capture_output=True, text=True)
    return p.returncode, p.stdout + p.stderr
def unit_files(u, seen=None):
    files, todo, seen = set(), [os.path.join(V, "contracts", u + ".rs.tpl")], set()
    while todo:
        t = todo.pop()
        if t in seen or not os.path.exists(t):
            continue
        seen.add(t)
        txt = open(t).read()
        files.update(re.findall(r"\bsrc/[\w/]+\.rs\b", txt))
        todo += [os.path.join(V, m) for m in re.findall(r"^\s*//@include\s+(\S+)", txt, re.M)]
    return files
UF = {u: unit_files(u) for c in P.PROPS.values() for u in c["units"]}
assert sh("git -C /repo status --short")[1].strip() == "", "/repo is not clean"
ev = tempfile.mkdtemp(prefix="verif-ev-")
shutil.copytree(os.path.join(V, "evidence"), ev + "/evidence")
alarms, n = [], 0
try:
    for d in ([os.path.abspath(x) for x in sys.argv[1:]] or sorted(glob.glob(V + "/benign/B*"))):
        for pf in sorted(glob.glob(os.path.join(d, "p*.diff"))):
            name = os.path.basename(d.rstrip("/")) + "/" + os.path.basename(pf)
            touched = set(re.findall(r"^\+\+\+ b/(\S+)", open(pf).read(), re.M))
            rc, o = sh("git -C /repo apply %s" % pf)
            if rc != 0:
                print("%-14s patch does not apply" % name); continue
            try:
                props = sorted(p for p, c in P.PROPS.items() if any(UF[u] & touched for u in c["units"]))
                with cf.ThreadPoolExecutor(max_workers=4) as ex:
                    res = dict(zip(props, ex.map(lambda p: sh("./check %s" % p, cwd=V), props)))
            finally:
                sh("git -C /repo checkout HEAD -- . ; git -C /repo reset -q HEAD")
            n += 1
            bad = {p: [l[:300] for l in o.split("\n") if l.startswith(("VIOLATION", "  obligation"))][:4] for p, (rc, o) in res.items() if rc == 1 or "VIOLATION" in o}
            crash = [p for p, (rc, o) in res.items() if rc not in (0, 1, 2)]
            und = [p for p, (rc, o) in res.items() if rc == 2]
            if bad:
                alarms.append((name, bad))
            print("%-14s %s ok=%d undecided=%s%s" % (name, "FALSE-ALARM " + json.dumps(bad) if bad else "quiet", sum(1 for rc, _ in res.values() if rc == 0), ",".join(und) or "-", (" CRASH " + ",".join(crash)) if crash else ""), flush=True)
finally:
    shutil.rmtree(os.path.join(V, "evidence")); shutil.copytree(ev + "/evidence", os.path.join(V, "evidence")); shutil.rmtree(ev)
    print("repo clean:", sh("git -C /repo status --short")[1].strip() == "")
print("%d patches, %d with a false alarm" % (n, len(alarms)))
