// ---- lemmas/l_queue.rs : L-QUEUE (DESIGN 5 / C07, C17) ----
// Under A-MUTEX every history of the MessagesQueue is a sequence of the atomic steps that the
// function contracts of U-QUEUE allow (witnesses `enqueued` / `received` below can only be
// introduced by the two step lemmas, whose premises are exactly these steps):
//   Push(x)  : q' == q ++ [x]                       push (x = Elem(v)), unblock (x = Unblock)
//   Take(x)  : q  == [x] ++ q'                      pop / try_pop / pop_timeout removing the head
//   Miss     : q' == q                              try_pop on an empty queue, pop_timeout timing out
enum QEv<T> { Push(Control<T>), Take(Control<T>), Miss }

spec fn q_step<T>(q: Seq<Control<T>>, e: QEv<T>, q2: Seq<Control<T>>) -> bool {
    match e {
        QEv::Push(x) => q2 == q.push(x),
        QEv::Take(x) => q.len() > 0 && q[0] == x && q2 == q.skip(1),
        QEv::Miss => q2 == q,
    }
}

/// states[i] --h[i]--> states[i+1], starting from the empty queue
spec fn q_run<T>(h: Seq<QEv<T>>, states: Seq<Seq<Control<T>>>) -> bool {
    &&& states.len() == h.len() + 1
    &&& states[0] == Seq::<Control<T>>::empty()
    &&& forall|i: int| 0 <= i < h.len() ==> q_step(#[trigger] states[i], h[i], states[i + 1])
}

spec fn pushed<T>(h: Seq<QEv<T>>) -> Seq<Control<T>>
    decreases h.len()
{
    if h.len() == 0 { Seq::empty() } else {
        let p = pushed(h.drop_last());
        match h.last() { QEv::Push(x) => p.push(x), _ => p }
    }
}
spec fn taken<T>(h: Seq<QEv<T>>) -> Seq<Control<T>>
    decreases h.len()
{
    if h.len() == 0 { Seq::empty() } else {
        let p = taken(h.drop_last());
        match h.last() { QEv::Take(x) => p.push(x), _ => p }
    }
}

// L-QUEUE: at every point of every history,  pushed == taken ++ queue.
// Hence: nothing is lost or duplicated (each pushed element is taken at most once, and is either
// taken or still queued), elements are handed out in push order (a single receiver sees one
// producer's requests in wire order), each Unblock token is consumed by exactly one receive call,
// and unblock never removes or reorders a queued request.
proof fn lemma_queue<T>(h: Seq<QEv<T>>, states: Seq<Seq<Control<T>>>)
    requires q_run(h, states)
    ensures pushed(h) == taken(h) + states[h.len() as int]
    decreases h.len()
{
    if h.len() == 0 {
        assert(pushed(h) =~= taken(h) + states[0]);
    } else {
        let h1 = h.drop_last();
        let s1 = states.drop_last();
        assert(q_run(h1, s1)) by {
            assert forall|i: int| 0 <= i < h1.len() implies q_step(#[trigger] s1[i], h1[i], s1[i + 1]) by {
                assert(q_step(states[i], h[i], states[i + 1]));
            }
        }
        lemma_queue(h1, s1);
        let n = h1.len() as int;
        assert(q_step(states[n], h[n], states[n + 1]));
        assert(s1[n] == states[n]);
        match h.last() {
            QEv::Push(x) => { assert(pushed(h) =~= taken(h) + states[n + 1]); }
            QEv::Take(x) => {
                assert(states[n] =~= seq![x] + states[n + 1]);
                assert(pushed(h) =~= taken(h) + states[n + 1]);
            }
            QEv::Miss => {}
        }
    }
}
