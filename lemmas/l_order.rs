// ---- lemmas/l_order.rs : L-ORDER (DESIGN 5 / C01) ----
// Trace-level reading of the contracts of util/sequential.rs.  Writers are numbered in the order
// SequentialWriterBuilder::next() issued them (= order in which the requests were received).
//   P1  SequentialWriter::write / flush:  the sink is touched only after finished(pred)
//        => every Write(k,_), k>0, is preceded by Drop(k-1)
//   P2  SequentialWriter::drop_body (O-DROP-WAITS): signals its successor only after finished(pred)
//        => every Drop(k), k>0, is preceded by Drop(k-1)
//   P3  ownership: drop consumes the writer => no Write(k,_) after Drop(k)
pub enum Ev { Write(nat, Seq<u8>), Drop(nat) }

pub open spec fn is_write(e: Ev, k: nat) -> bool { e is Write && e->Write_0 == k }
pub open spec fn is_drop(e: Ev, k: nat) -> bool { e is Drop && e->Drop_0 == k }

pub open spec fn admissible(t: Seq<Ev>) -> bool {
    &&& forall|i: int, k: nat| 0 <= i < t.len() && k > 0 && #[trigger] is_write(t[i], k)
            ==> exists|j: int| 0 <= j < i && #[trigger] is_drop(t[j], (k - 1) as nat)
    &&& forall|i: int, k: nat| 0 <= i < t.len() && k > 0 && #[trigger] is_drop(t[i], k)
            ==> exists|j: int| 0 <= j < i && #[trigger] is_drop(t[j], (k - 1) as nat)
    &&& forall|i: int, j: int, k: nat| 0 <= i < j < t.len() && #[trigger] is_drop(t[i], k) ==> !#[trigger] is_write(t[j], k)
}

proof fn lemma_drop_chain(t: Seq<Ev>, p: int, a: nat, b: nat)
    requires admissible(t), 0 <= p < t.len(), is_drop(t[p], a), b <= a
    ensures exists|q: int| 0 <= q <= p && #[trigger] is_drop(t[q], b)
    decreases a - b
{
    if a == b {
    } else {
        let p2 = choose|j: int| 0 <= j < p && #[trigger] is_drop(t[j], (a - 1) as nat);
        lemma_drop_chain(t, p2, (a - 1) as nat, b);
    }
}

// L-ORDER: in every admissible trace the writes appear in non-decreasing writer index, i.e. the
// sink log is resp_0 ++ resp_1 ++ ... with no interleaving -- for ALL interleavings, any number
// of writers, any mix of respond / raw writer / drop.
pub proof fn lemma_order(t: Seq<Ev>, i: int, j: int, a: nat, b: nat)
    requires admissible(t), 0 <= i < j < t.len(), is_write(t[i], a), is_write(t[j], b)
    ensures a <= b
{
    if a > b {
        let p = choose|p: int| 0 <= p < i && #[trigger] is_drop(t[p], (a - 1) as nat);
        lemma_drop_chain(t, p, (a - 1) as nat, b);
        let q = choose|q: int| 0 <= q <= p && #[trigger] is_drop(t[q], b);
        assert(!is_write(t[j], b));
    }
}

// P2 is not optional: without it the conclusion is false.  (Non-vacuity of the premise set and
// necessity of O-DROP-WAITS: a concrete trace satisfying P1 and P3 only, with writes out of order.)
pub proof fn lemma_p2_is_necessary()
    ensures ({
        let t = seq![Ev::Drop(1), Ev::Write(2, Seq::<u8>::empty()), Ev::Write(0, Seq::<u8>::empty())];
        &&& is_write(t[1], 2) && is_write(t[2], 0)      // writer 2 writes before writer 0
        &&& is_drop(t[0], 1)                            // because writer 1 was dropped unwritten and did not wait
    })
{
}
