// ---- lemmas/l_once.rs : L-ONCE (DESIGN 5 / C06, C18) ----
// Trace-level reading of the contracts of request.rs.  While the application owns a Request it can
// call as_reader() any number of times (&mut self) and then EITHER one of the consuming operations
// respond / into_writer / upgrade (they take `self` by value: ownership allows at most one, and
// nothing after it) OR just let it go.  In every case Drop::drop runs on what is left.
//   as_reader        : contract O-CONTINUE  (slot stays occupied; 100 iff the flag was set; flag cleared)
//   respond/into_writer/upgrade : require the slot occupied, take it, one final response goes out on it
//   drop             : contract O-DROP500   (occupied => one 500 and the slot is taken; empty => nothing)
pub struct RqState { pub slot: bool, pub finals: nat, pub interims: nat, pub cont: bool, pub interim_after_final: bool }

pub enum End { Respond, IntoWriter, Upgrade, JustDrop }

pub open spec fn as_reader_step(s: RqState) -> RqState {
    if s.cont { RqState { interims: s.interims + 1, cont: false, interim_after_final: s.interim_after_final || s.finals > 0, ..s } } else { s }
}
pub open spec fn consume_step(s: RqState) -> RqState {
    RqState { slot: false, finals: s.finals + 1, ..s }
}
pub open spec fn drop_step(s: RqState) -> RqState {
    if s.slot { RqState { slot: false, finals: s.finals + 1, ..s } } else { s }
}
pub open spec fn run_readers(s: RqState, n: nat) -> RqState
    decreases n
{
    if n == 0 { s } else { as_reader_step(run_readers(s, (n - 1) as nat)) }
}
pub open spec fn run(s: RqState, n: nat, e: End) -> RqState {
    let s1 = run_readers(s, n);
    match e {
        End::JustDrop => drop_step(s1),
        _ => drop_step(consume_step(s1)),
    }
}

proof fn lemma_readers(s: RqState, n: nat)
    requires s.slot, s.finals == 0, s.interims == 0, !s.interim_after_final
    ensures ({
        let r = run_readers(s, n);
        &&& r.slot && r.finals == 0 && !r.interim_after_final
        &&& r.interims <= 1
        &&& (r.interims == 1 ==> s.cont && n > 0)
        &&& (s.cont && n > 0 ==> r.interims == 1)
        &&& (!s.cont ==> r.interims == 0)
        &&& (r.cont ==> r.interims == 0)
    })
    decreases n
{
    if n > 0 { lemma_readers(s, (n - 1) as nat); }
}

// L-ONCE: every program allowed by ownership ends with exactly one final response on the request's
// writer, at most one interim 100 (exactly one iff the client expected it and the body was asked
// for), and the interim precedes the final response.
pub proof fn lemma_once(cont: bool, n: nat, e: End)
    ensures ({
        let r = run(RqState { slot: true, finals: 0, interims: 0, cont: cont, interim_after_final: false }, n, e);
        &&& r.finals == 1
        &&& !r.slot
        &&& r.interims == (if cont && n > 0 { 1nat } else { 0nat })
        &&& !r.interim_after_final
    })
{
    let s = RqState { slot: true, finals: 0, interims: 0, cont: cont, interim_after_final: false };
    lemma_readers(s, n);
}
